"""Reference model of the identifier: canonical signature of a configuration
and its version-2 byte encoding, written from the documentation
(docs/experiments/config.md "identifier" rules) and the format of the pinned
release. Independent of HashComputer: it never calls it.

signature(config) -> nested tuples
  ("none",) ("int", v) ("float", v) ("str", v) ("enum", "module.qualname:name")
  ("list", [sig...])            meta-flagged members dropped, order kept
  ("dict", [(key, sig)...])     meta-flagged members dropped, sorted by key
  ("cycle", k)                  back-reference k levels up
  ("obj", task_sig|None, type_id, [(name, sig)...])  sorted by name
"""

import struct
from enum import Enum

from experimaestro.core.objects import Config


def _is_meta(v):
    return isinstance(v, Config) and bool(v.__xpm__.meta)


def _strip(v):
    if isinstance(v, list):
        return [x for x in v if not _is_meta(x)]
    if isinstance(v, dict):
        return {k: x for k, x in v.items() if not _is_meta(x)}
    return v


def in_signature(argument, value):
    """Does this argument (with this value) belong to the signature?"""
    if argument.ignored:
        # Meta/Option/Path parameters are out, unless the value is a
        # configuration explicitly flagged meta=False
        if not (isinstance(value, Config) and value.__xpm__.meta is False):
            return False
    if argument.generator:
        return False
    if not argument.constant:
        if (not argument.required) and argument.default is None and value is None:
            return False
        if argument.default is not None and argument.default == _strip(value):
            return False
    if _is_meta(value):
        return False
    return True


def value_sig(v, stack, owner=None):
    if v is None:
        return ("none",)
    if isinstance(v, float):
        return ("float", v)
    if isinstance(v, int):
        return ("int", v)
    if isinstance(v, str):
        return ("str", v)
    if isinstance(v, list):
        return ("list", [value_sig(x, stack, owner) for x in v if not _is_meta(x)])
    if isinstance(v, Enum):
        k = v.__class__
        return ("enum", f"{k.__module__}.{k.__qualname__}:{v.name}")
    if isinstance(v, dict):
        items = [(k, x) for k, x in v.items() if not _is_meta(x)]
        items.sort(key=lambda kv: kv[0])
        return ("dict", [(k, value_sig(x, stack, owner)) for k, x in items])
    if isinstance(v, Config):
        for ix, c in enumerate(stack):
            if c is v:
                return ("cycle", len(stack) - ix)
        return object_sig(v, stack, owner)
    raise NotImplementedError(type(v))


def object_sig(config, stack=None, owner=None):
    info = config.__xpm__
    if info.task is config:
        # A submitted task: its identifier was fixed when it was submitted,
        # i.e. before its outputs were linked back to it, and does not depend
        # on where it is referenced from
        stack, owner = [], config
    stack = (stack or []) + [config]
    task_sig = None
    if info.task is not None and info.task is not config and info.task is not owner:
        task_sig = value_sig(info.task, stack, owner)
    xpmtype = config.__xpmtype__
    args = []
    for argument in sorted(xpmtype.arguments.values(), key=lambda a: a.name):
        value = info.values.get(argument.name, None)
        if in_signature(argument, value):
            args.append((argument.name, value_sig(value, stack, owner)))
    return ("obj", task_sig, xpmtype.identifier.name, args)


def signature(config):
    return object_sig(config, [])


def full_signature(config, pre_tasks):
    """Signature behind the full identifier: raw signature + the *set* of
    pre-task signatures + the *sequence* of init-task signatures"""
    return (
        signature(config),
        [signature(p) for p in pre_tasks],
        [signature(t) for t in config.__xpm__.init_tasks],
    )


# --- version-2 byte encoding


def encode_value(sig, hasher):
    kind = sig[0]
    if kind == "none":
        return b"\x06"
    if kind == "float":
        return b"\x02" + struct.pack("!d", sig[1])
    if kind == "int":
        return b"\x01" + struct.pack("!q", sig[1])
    if kind == "str":
        return b"\x03" + sig[1].encode("utf-8")
    if kind == "enum":
        return b"\x0a" + sig[1].encode("utf-8")
    if kind == "list":
        out = b"\x07" + struct.pack("!d", len(sig[1]))
        for x in sig[1]:
            out = out + encode_value(x, hasher)
        return out
    if kind == "dict":
        out = b"\x09"
        for k, x in sig[1]:
            out = out + encode_value(value_sig(k, []), hasher) + encode_value(x, hasher)
        return out
    if kind == "cycle":
        return b"\x00" + b"\x0b" + struct.pack("!q", sig[1])
    if kind == "obj":
        return b"\x00" + _raw(digest(sig, hasher))
    raise NotImplementedError(kind)


def _raw(x):
    return getattr(x, "b", x)


def digest(sig, hasher):
    """Identifier (raw) of an object signature"""
    _, task_sig, type_id, args = sig
    h = hasher()
    h.update(b"\x00")
    if task_sig is not None:
        h.update(b"\x08")
        h.update(encode_value(task_sig, hasher))
    h.update(type_id.encode("utf-8"))
    for name, vsig in args:
        h.update(b"\x03" + name.encode("utf-8"))
        h.update(b"\x05")
        h.update(encode_value(vsig, hasher))
    return h.digest()


def full_digest(full_sig, hasher):
    raw, pre, init = full_sig
    h = hasher()
    h.update(digest(raw, hasher))
    for d in sorted(_raw(digest(p, hasher)) for p in pre):
        h.update(d)
    if init:
        h.update(b"\x0c")
        for t in init:
            h.update(digest(t, hasher))
    return h.digest()
