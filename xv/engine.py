"""Driver: shards the conditions of a property over worker processes, maps
CrossHair verdicts to exit codes, replays counter-examples on the real code,
matches known findings and writes the evidence file."""

import hashlib
import importlib
import json
import os
import subprocess
import sys
import threading
import time
from pathlib import Path

VERIF = Path(__file__).resolve().parent.parent
EVIDENCE = VERIF / "evidence"
REPLAYS = VERIF / "replays"
KNOWN = VERIF / "known_findings.json"
NCPU = int(os.environ.get("XV_JOBS", "16"))

EXIT_OK, EXIT_VIOLATION, EXIT_INCONCLUSIVE = 0, 1, 3


def known_findings(prop=None):
    if not KNOWN.is_file():
        return []
    data = json.loads(KNOWN.read_text())
    return [f for f in data.get("findings", []) if prop is None or f["property"] == prop]


def open_finding_ids(prop):
    return sorted(f["id"] for f in known_findings(prop) if f.get("status") == "open")


def harness_module(prop):
    from xv.harness import PROPERTIES

    return importlib.import_module(PROPERTIES[prop])


def _worker_env():
    env = dict(os.environ)
    env["PYTHONPATH"] = f"{VERIF}:" + env.get("PYTHONPATH", "")
    env["PYTHONDONTWRITEBYTECODE"] = "1"
    env["PYTHONWARNINGS"] = "ignore"
    env.setdefault("PYTHONHASHSEED", "0")
    env["PYTEST_CURRENT_TEST"] = "xv"
    # The guard of MANIFEST.hooks (no source hook exists: informational)
    env["EXPERIMAESTRO_VERIF"] = "1"
    return env


def run_workers(jobs, log):
    """Runs jobs in worker processes, returns {name: result}"""
    n = max(1, min(NCPU, len(jobs)))
    batches = [[] for _ in range(n)]
    loads = [0.0] * n
    for job in sorted(jobs, key=lambda j: -j.get("weight", j["timeout"])):
        i = loads.index(min(loads))
        batches[i].append(job)
        loads[i] += job.get("weight", job["timeout"])

    results = {}
    lock = threading.Lock()

    def run_batch(batch):
        budget = sum(j["timeout"] * 1.6 + j.get("reach_timeout", max(30, j["timeout"] / 4)) + 30 for j in batch) + 60
        p = subprocess.Popen(
            [sys.executable, "-m", "xv.worker"],
            stdin=subprocess.PIPE,
            stdout=subprocess.PIPE,
            stderr=subprocess.PIPE,
            env=_worker_env(),
            text=True,
            cwd=str(VERIF),
        )
        err_chunks = []

        def drain_err():
            for line in p.stderr:
                err_chunks.append(line)
                if len(err_chunks) > 400:
                    del err_chunks[:200]

        te = threading.Thread(target=drain_err, daemon=True)
        te.start()
        try:
            p.stdin.write(json.dumps(batch))
            p.stdin.close()
        except BrokenPipeError:
            pass
        deadline = time.time() + budget

        def reader():
            for line in p.stdout:
                if line.startswith("@@"):
                    try:
                        r = json.loads(line[2:])
                    except Exception:
                        continue
                    with lock:
                        results[r["name"]] = r
                    log(f"  [{r['verdict']:>12}] {r['name']} "
                        f"paths={r.get('stats', {}).get('paths', '-')} wall={r.get('wall_s', '-')}s")

        tr = threading.Thread(target=reader, daemon=True)
        tr.start()
        while p.poll() is None and time.time() < deadline:
            time.sleep(0.2)
        killed = False
        if p.poll() is None:
            p.kill()
            killed = True
        tr.join(5)
        te.join(2)
        tail = "".join(err_chunks)[-1500:]
        for job in batch:
            with lock:
                if job["name"] not in results:
                    results[job["name"]] = {
                        "name": job["name"],
                        "module": job["module"],
                        "func": job["func"],
                        "shard": job.get("shard"),
                        "expect": job.get("expect", "hold"),
                        "verdict": "inconclusive",
                        "state": "WORKER_KILLED" if killed else f"WORKER_EXIT_{p.returncode}",
                        "message": tail,
                    }

    threads = [threading.Thread(target=run_batch, args=(b,)) for b in batches if b]
    for t in threads:
        t.start()
    for t in threads:
        t.join()
    return results


def replay_concrete(prop, module, func, shard, witness, timeout=300):
    """Replays a witness on the real code in a fresh process, outside CrossHair"""
    payload = {"property": prop, "module": module, "func": func, "shard": shard, "witness": witness}
    p = subprocess.run(
        [sys.executable, "-m", "xv", "replay-json"],
        input=json.dumps(payload),
        capture_output=True,
        text=True,
        env=_worker_env(),
        cwd=str(VERIF),
        timeout=timeout,
    )
    for line in p.stdout.splitlines():
        if line.startswith("@@"):
            return json.loads(line[2:])
    return {"reproduced": None, "error": f"replay process failed ({p.returncode}): {p.stderr[-800:]}"}


def do_replay_json():
    """(internal) reads a replay payload on stdin, runs it, prints the outcome"""
    from xv import rt

    payload = json.load(sys.stdin)
    out = os.fdopen(os.dup(1), "w")
    os.dup2(2, 1)
    sys.setrecursionlimit(10000)
    rt.MODE = "replay"
    rt.NOTES = []
    rt.SHARD = payload.get("shard") or {}
    mod = importlib.import_module(payload["module"])
    mod.SHARD = rt.SHARD
    fn = getattr(mod, payload["func"])
    if hasattr(mod, "setup"):
        mod.setup("replay")
    res = {}
    try:
        r = fn(**payload["witness"])
        res["result"] = bool(r)
        res["reproduced"] = not r
    except Exception as e:
        import traceback

        res["result"] = None
        res["error"] = f"{type(e).__name__}: {e}"
        res["traceback"] = traceback.format_exc()[-2500:]
        # an exception that never entered the repository's code is an error
        # of the harness, not a violation
        in_repo = False
        tb = e.__traceback__
        while tb is not None:
            if tb.tb_frame.f_code.co_filename.startswith(str(rt.REPO) + "/"):
                in_repo = True
            tb = tb.tb_next
        res["reproduced"] = True if in_repo else None
        if not in_repo:
            res["error"] = "harness error (exception outside the repository code): " + res["error"]
    res["notes"] = list(rt.NOTES)[:60]
    out.write("@@" + json.dumps(res, default=str) + "\n")
    out.flush()


def check(prop, tier, seed=0, only=None, verbose=True):
    t0 = time.time()

    def log(msg):
        if verbose:
            print(msg, file=sys.stderr, flush=True)

    os.environ["XV_OPEN_FINDINGS"] = ",".join(open_finding_ids(prop))
    mod = harness_module(prop)
    conds = mod.conditions(tier)
    if only:
        conds = [c for c in conds if any(o in c["name"] for o in only)]
    for c in conds:
        c.setdefault("module", mod.__name__)
        c.setdefault("expect", "hold")
        c.setdefault("timeout", 120)
    log(f"[xv] {prop} tier={tier}: {len(conds)} conditions on {min(NCPU, len(conds))} workers")
    results = run_workers(conds, log)

    violations, known_hits, inconclusive = [], [], []
    n_replayed = 0
    lines = []
    open_findings = {f["id"]: f for f in known_findings(prop) if f.get("status") == "open"}

    # --- known findings: replay their witnesses on the current tree
    for fid, f in sorted(open_findings.items()):
        w = f.get("witness")
        if not w:
            continue
        r = replay_concrete(prop, w["module"], w["func"], w.get("shard") or {}, w["args"])
        if r.get("reproduced"):
            lines.append(f"KNOWN-FINDING: property={prop} {fid}: {f['what']}")
            known_hits.append({"id": fid, "notes": r.get("notes", [])[:5]})
        elif r.get("reproduced") is None:
            inconclusive.append({"name": f"known:{fid}", "why": r.get("error")})
        else:
            log(f"[xv] known finding {fid} no longer reproduces on this tree")

    for name in sorted(results):
        r = results[name]
        expect = r.get("expect", "hold")
        if expect == "refute":
            # negative control: the engine must refute it
            if r["verdict"] != "refuted":
                inconclusive.append({"name": name, "why": f"negative control not refuted ({r['verdict']}/{r.get('state')})"})
            elif r.get("witness") is None:
                inconclusive.append({"name": name, "why": f"negative control refuted without parsable witness: {r.get('message', '')[:200]}"})
            else:
                # the refutation must be a genuine one: reproduced on the real code
                rep = replay_concrete(prop, r["module"], r["func"], r.get("shard") or {}, r["witness"])
                n_replayed += 1
                r["replay"] = rep
                if not rep.get("reproduced"):
                    inconclusive.append({"name": name, "why": f"negative control: counter-example did not reproduce ({rep.get('error')})"})
            continue
        if r["verdict"] == "confirmed":
            reach = r.get("reach", {})
            if reach.get("verdict") != "refuted":
                inconclusive.append({"name": name, "why": f"reachability twin not refuted: {reach.get('verdict')}/{reach.get('state')} (vacuous harness?)"})
            elif reach.get("concrete_result") is not True:
                inconclusive.append({"name": name, "why": f"concrete run of the reach witness on the real code did not hold: {reach.get('concrete_error') or reach.get('concrete_result')} {reach.get('cover_error', '')}"})
            continue
        if r["verdict"] == "refuted":
            w = r.get("witness")
            if w is None:
                inconclusive.append({"name": name, "why": f"counter-example without parsable witness: {r.get('witness_error')} :: {r.get('message', '')[:300]}"})
                continue
            rep = replay_concrete(prop, r["module"], r["func"], r.get("shard") or {}, w)
            n_replayed += 1
            r["replay"] = rep
            if rep.get("reproduced"):
                REPLAYS.mkdir(exist_ok=True)
                (REPLAYS / prop).mkdir(exist_ok=True)
                h = hashlib.sha1(json.dumps([name, w], sort_keys=True, default=str).encode()).hexdigest()[:10]
                path = REPLAYS / prop / f"{name.replace('/', '_')}-{h}.json"
                path.write_text(json.dumps({
                    "property": prop, "module": r["module"], "func": r["func"],
                    "shard": r.get("shard") or {}, "witness": w,
                    "crosshair_message": r.get("message"), "replay": rep,
                }, indent=1, default=str))
                violations.append({"name": name, "replay": str(path), "witness": w, "notes": rep.get("notes", [])[:8], "error": rep.get("error")})
                lines.append(f"VIOLATION property={prop} replay={path}")
            else:
                inconclusive.append({"name": name, "why": f"counter-example did not reproduce on the real code (harness/stub error): {json.dumps(w, default=str)[:300]} :: {rep.get('error')}"})
            continue
        inconclusive.append({"name": name, "why": f"{r['verdict']}/{r.get('state')}: {(r.get('message') or '')[:600]}"})

    wall = time.time() - t0
    write_evidence(prop, tier, seed, mod, conds, results, violations, known_hits, inconclusive, wall, n_replayed)

    for line in lines:
        print(line, flush=True)
    if violations:
        for v in violations:
            log(f"[xv] violation in {v['name']}: witness={json.dumps(v['witness'], default=str)[:400]} {v.get('error') or ''}")
            for nt in v["notes"]:
                log(f"       {nt}")
        return EXIT_VIOLATION
    if inconclusive:
        for i in inconclusive:
            log(f"[xv] INCONCLUSIVE {i['name']}: {i['why']}")
        print(f"INCONCLUSIVE property={prop} conditions={len(inconclusive)} (not a verdict; exit 3)", flush=True)
        return EXIT_INCONCLUSIVE
    n_conf = sum(1 for r in results.values() if r["verdict"] == "confirmed")
    print(f"OK property={prop} tier={tier} conditions_confirmed={n_conf} "
          f"negative_controls_refuted={sum(1 for r in results.values() if r.get('expect') == 'refute' and r['verdict'] == 'refuted')} "
          f"wall={wall:.1f}s", flush=True)
    return EXIT_OK


def write_evidence(prop, tier, seed, mod, conds, results, violations, known_hits, inconclusive, wall, n_replayed):
    info = getattr(mod, "INFO", {})
    paths = sum(r.get("stats", {}).get("paths", 0) for r in results.values())
    queries = sum(r.get("stats", {}).get("queries", 0) for r in results.values())
    solver_s = sum(r.get("stats", {}).get("solver_s", 0.0) for r in results.values())
    rpaths = sum(r.get("reach", {}).get("stats", {}).get("paths", 0) for r in results.values())
    rqueries = sum(r.get("reach", {}).get("stats", {}).get("queries", 0) for r in results.values())
    entered = set()
    samples = []
    validated = 0
    for name in sorted(results):
        r = results[name]
        entered.update(r.get("functions_entered", []))
        reach = r.get("reach", {})
        if reach.get("concrete_result") is True:
            validated += 1
            if len(samples) < 6:
                samples.append({"condition": name, "shard": r.get("shard"), "witness_of_a_complete_path": reach.get("witness"), "notes": reach.get("notes", [])[:6]})
    for v in violations[:4]:
        samples.append({"condition": v["name"], "counterexample": v["witness"], "notes": v["notes"]})
    if not samples:
        samples.append({"note": "no complete path witnessed", "conditions": sorted(results)[:5]})
    cond_rows = []
    for name in sorted(results):
        r = results[name]
        st = r.get("stats", {})
        cond_rows.append({
            "name": name, "func": r.get("func"), "shard": r.get("shard"), "expect": r.get("expect"),
            "verdict": r.get("verdict"), "crosshair_state": r.get("state"),
            "paths": st.get("paths"), "solver_queries": st.get("queries"), "solver_s": st.get("solver_s"),
            "solver_unknown": st.get("unknown"), "wall_s": r.get("wall_s"),
            "reach_twin": r.get("reach", {}).get("verdict"),
        })
    ev = {
        "property_id": prop,
        "tier": tier,
        "seed": int(seed),
        "level": "model_checking",
        "coverage": {
            "states": int(paths),
            "transitions": int(queries),
            "traces_validated_against_impl": int(validated + n_replayed),
            "samples": samples,
            "exhaustive": bool(not inconclusive and not violations),
            "explanation": (
                "states = execution paths of the real code explored by CrossHair (one per feasible "
                "combination of solver-decided branches); transitions = z3 satisfiability queries "
                "discharged while exploring them; traces_validated = concrete re-executions, outside "
                "the symbolic engine, of witnesses produced by the solver (reachability twins and "
                "counter-examples). A condition counts as confirmed only if CrossHair reports "
                "'Confirmed over all paths' with zero solver unknowns, its reachability twin is refuted "
                "and the twin's witness holds concretely."
            ),
            "technique": "symbolic execution of the real Python code (CrossHair 0.0.110 + z3), bounded by the shard parameters below",
            "conditions_total": len(results),
            "conditions_confirmed": sum(1 for r in results.values() if r["verdict"] == "confirmed" and r.get("expect") != "refute"),
            "negative_controls_refuted": sum(1 for r in results.values() if r.get("expect") == "refute" and r["verdict"] == "refuted"),
            "conditions_inconclusive": [i for i in inconclusive][:40],
            "reach_twin_paths": int(rpaths),
            "reach_twin_queries": int(rqueries),
            "solver_time_s": round(solver_s, 2),
            "solver_unknown_answers": sum(r.get("stats", {}).get("unknown", 0) for r in results.values()),
            "functions_encoded": info.get("functions", []),
            "functions_entered_in_concrete_runs": sorted(entered),
            "bounds": info.get("bounds", {}).get(tier, info.get("bounds", {})),
            "outside_the_claim": info.get("outside", []),
            "stubs": info.get("stubs", []),
            "symbolic_data": info.get("symbolic_data", True),
            "known_findings_reproduced": known_hits,
            "conditions": cond_rows,
        },
        "assumptions": info.get("assumptions", []),
        "wall_s": round(wall, 2),
        "violations": len(violations),
    }
    EVIDENCE.mkdir(exist_ok=True)
    (EVIDENCE / f"{prop}.json").write_text(json.dumps(ev, indent=1, default=str))


def replay_file(path):
    payload = json.loads(Path(path).read_text())
    rep = replay_concrete(payload["property"], payload["module"], payload["func"], payload.get("shard") or {}, payload["witness"])
    print(json.dumps(rep, indent=1, default=str))
    if rep.get("reproduced"):
        print(f"VIOLATION property={payload['property']} replay={path}")
        return EXIT_VIOLATION
    return EXIT_OK
