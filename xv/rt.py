"""Run-time helpers shared by all harnesses.

MODE is set by the worker before a harness function is called:

* ``check``  – the harness runs under CrossHair, its return value is the
  post-condition;
* ``reach``  – reachability twin: every call of :func:`fin` returns ``False``,
  so the twin is *refuted* iff at least one feasible path reaches the final
  assertion of the harness (vacuity guard);
* ``replay`` / ``cover`` – the harness is run concretely, outside CrossHair.
"""

import os
import shutil
from pathlib import Path

MODE = "check"

#: root of the repository under test (the seed-confirmation tool points it to a
#: scratch worktree so that /repo is never modified)
REPO = Path(os.environ.get("XV_REPO", "/repo"))

#: set by the worker: the shard parameters of the running condition
SHARD: dict = {}

#: notes recorded by the harness while it runs concretely (replay/cover)
NOTES: list = []


def concrete() -> bool:
    return MODE in ("replay", "cover")


def note(*what):
    """Record something about the current concrete execution (ignored under
    CrossHair so that no symbolic value is realised by formatting it)"""
    if MODE in ("replay", "cover"):
        NOTES.append(" ".join(str(w) for w in what))


def fin(holds) -> bool:
    """Final statement of every harness: the property as a boolean"""
    if MODE == "reach":
        return False
    if holds:
        return True
    return False


def pick(s, n: int) -> int:
    """Maps a (symbolic) int to one of n alternatives by branching; every value
    of ``s`` is admissible (no pre-condition needed)"""
    for i in range(n - 1):
        if s == i:
            return i
    return n - 1


def concretize(v, menu):
    """Make a symbolic int concrete by branching over a menu of values; returns
    None when the value is outside the menu (the caller must then treat the
    path as outside the claimed domain)"""
    for m in menu:
        if v == m:
            return m
    return None


# --- Scratch directories (created and removed outside of tracing)

_SCRATCH_ROOT = Path(os.environ.get("XV_SCRATCH", "/tmp/xv"))
_scratch_n = [0]


def _notrace():
    if MODE in ("check", "reach"):
        from crosshair.tracers import NoTracing

        return NoTracing()
    import contextlib

    return contextlib.nullcontext()


def scratch_dir() -> Path:
    """A fresh empty directory private to this process (same name at every
    call so that path replays are deterministic)"""
    with _notrace():
        d = _SCRATCH_ROOT / f"p{os.getpid()}"
        if d.exists():
            shutil.rmtree(d, ignore_errors=True)
        d.mkdir(parents=True, exist_ok=True)
        return d


def scratch_cleanup():
    with _notrace():
        d = _SCRATCH_ROOT / f"p{os.getpid()}"
        shutil.rmtree(d, ignore_errors=True)
