"""Universe for C15: one configuration class per type expression"""

from pathlib import Path
from typing import Dict, List, Optional

from experimaestro import Config, Param

from xv.defs.ident import Color, Leaf

BASES = {"int": int, "float": float, "str": str, "bool": bool, "path": Path, "enum": Color, "leaf": Leaf}

#: shapes: how the base type is wrapped (outermost first)
SHAPES = {
    "b": [],
    "Lb": ["list"],
    "Db": ["dict"],
    "LLb": ["list", "list"],
    "LDb": ["list", "dict"],
    "DLb": ["dict", "list"],
    "DDb": ["dict", "dict"],
}


def pytype(base, shape):
    t = BASES[base]
    for c in reversed(SHAPES[shape]):
        t = List[t] if c == "list" else Dict[str, t]
    return t


def texpr(base, shape):
    t = (base,)
    for c in reversed(SHAPES[shape]):
        t = (c, t)
    return t


CLASSES = {}


def _make(name, tp, optional):
    ann = Param[Optional[tp]] if optional else Param[tp]
    ns = {"__annotations__": {"v": ann}, "__xpmid__": f"xv.t.{name.lower()}", "__module__": __name__, "__qualname__": name}
    return type(name, (Config,), ns)


for _b in BASES:
    for _s in SHAPES:
        for _o in (False, True):
            _n = f"T_{_b}_{_s}_{'opt' if _o else 'req'}"
            CLASSES[(_b, _s, _o)] = _make(_n, pytype(_b, _s), _o)
            globals()[_n] = CLASSES[(_b, _s, _o)]
