"""Variant classes: same type identifiers as xv.defs.ident with class-level
edits (used by C02 'a class extended with a defaulted / Meta / generated
parameter', by C03 'constant changed' and by negative controls)."""

from pathlib import Path
from typing import Dict, List, Optional

from experimaestro import Config, Constant, Meta, Param, PathGenerator, field

from xv.defs.ident import Color


class LeafK8(Config):
    """Leaf with another constant value"""

    __xpmid__ = "xv.leaf"

    i: Param[int]
    s: Param[str] = "d"
    o: Param[Optional[int]]
    m: Meta[int] = 3
    e: Param[Color] = Color.RED
    k: Constant[int] = 8
    p: Meta[Path] = field(default_factory=PathGenerator("leaf.txt"))


class LeafNoK(Config):
    """Leaf without the constant"""

    __xpmid__ = "xv.leaf"

    i: Param[int]
    s: Param[str] = "d"
    o: Param[Optional[int]]
    m: Meta[int] = 3
    e: Param[Color] = Color.RED
    p: Meta[Path] = field(default_factory=PathGenerator("leaf.txt"))


class LeafExt(Config):
    """Leaf extended with a defaulted, an optional, a Meta and a generated parameter"""

    __xpmid__ = "xv.leaf"

    i: Param[int]
    s: Param[str] = "d"
    o: Param[Optional[int]]
    m: Meta[int] = 3
    e: Param[Color] = Color.RED
    k: Constant[int] = 7
    p: Meta[Path] = field(default_factory=PathGenerator("leaf.txt"))
    # the additions
    added: Param[int] = 11
    added_opt: Param[Optional[str]]
    added_meta: Meta[str] = "x"
    added_list: Param[List[int]] = [1, 2]
    added_path: Meta[Path] = field(default_factory=PathGenerator("new.txt"))
    # falsy defaults
    added_flag: Param[bool] = False
    added_zero: Param[int] = 0
    added_empty: Param[str] = ""
    added_nolist: Param[List[int]] = []
    added_nodict: Param[Dict[str, int]] = {}
    added_fzero: Param[float] = 0.0


class NodeExt(Config):
    """Node whose child type is the extended Leaf, itself extended"""

    __xpmid__ = "xv.node"

    x: Param[int] = 0
    child: Param[LeafExt]
    other: Param[Optional[LeafExt]]
    aux: Meta[Optional[LeafExt]]
    path: Meta[Path] = field(default_factory=PathGenerator("node.bin"))
    extra: Param[Dict[str, int]] = {"a": 1}


class Deep(Config):
    """Three-level dict (outside the domain of C03: negative control)"""

    __xpmid__ = "xv.deep"

    ddd: Param[Dict[str, Dict[str, Dict[str, int]]]] = {}


class PairD(Config):
    """Two string parameters, the second one defaulted: the shape of the
    collision family known outside the domain of C03 (control characters)"""

    __xpmid__ = "xv.paird"

    a: Param[str]
    b: Param[str] = "d"


class TopExt(Config):
    __xpmid__ = "xv.top"

    n1: Param[NodeExt]
    n2: Param[Optional[NodeExt]]
    leaf: Param[Optional[LeafExt]]
    t: Param[int] = 5
    fresh: Param[Optional[LeafExt]]


from xv.defs.ident import Out  # noqa: E402


class WithDef(Config):
    """A configuration-typed parameter whose default is a configuration"""

    __xpmid__ = "xv.withdef"

    sub: Param[Out] = Out(w=1)
    n: Param[int] = 0
