"""Task universe of the scheduler family. Jobs of these classes are created
through xv.env.sched.job_factory (no script is written, the process is a
record in the model OS)."""

from typing import Dict, List, Optional

from experimaestro import Config, LightweightTask, Param, Task

from xv.env.sched import job_factory


class SJ(Task):
    """A job: identity `x`, upstream jobs in `after`"""

    __xpmid__ = "xv.sj"

    x: Param[int]
    after: Param[List["SJ"]] = []

    def execute(self):
        pass


SJ.__getxpmtype__().taskcommandfactory = job_factory


class SOut(Config):
    __xpmid__ = "xv.sout"

    w: Param[int] = 0


class SJOut(Task):
    """A job whose output is another configuration"""

    __xpmid__ = "xv.sjout"

    x: Param[int]
    out: Param[SOut]

    def task_outputs(self, dep):
        return dep(self.out)

    def execute(self):
        pass


SJOut.__getxpmtype__().taskcommandfactory = job_factory


class SHolder(Config):
    __xpmid__ = "xv.sholder"

    one: Param[Optional[SJ]]
    lst: Param[List[SJ]] = []
    dct: Param[Dict[str, SJ]] = {}
    out: Param[Optional[SOut]]
    sub: Param[Optional["SHolder"]]


class SPre(LightweightTask):
    __xpmid__ = "xv.spre"

    dep: Param[Optional[SJ]]
    hold: Param[Optional[SHolder]]

    def execute(self):
        pass


class SDown(Task):
    """Downstream job with every kind of position for an upstream task"""

    __xpmid__ = "xv.sdown"

    x: Param[int] = 0
    one: Param[Optional[SJ]]
    lst: Param[List[SJ]] = []
    dct: Param[Dict[str, SJ]] = {}
    out: Param[Optional[SOut]]
    hold: Param[Optional[SHolder]]

    def execute(self):
        pass


SDown.__getxpmtype__().taskcommandfactory = job_factory
