"""Class universe for the identifier / serialisation / type families.

Lives inside a package on purpose: configuration classes defined in a
top-level module are re-imported from their file by load_objects."""

from enum import Enum
from pathlib import Path
from typing import Dict, List, Optional

from experimaestro import (
    Config,
    Constant,
    LightweightTask,
    Meta,
    Option,
    Param,
    Task,
    PathGenerator,
    field,
)


class Color(Enum):
    RED = 1
    GREEN = 2
    BLUE = 3


class Shade(Enum):
    RED = 1
    DARK = 2


class Leaf(Config):
    """Scalars of every kind"""

    __xpmid__ = "xv.leaf"

    i: Param[int]
    s: Param[str] = "d"
    o: Param[Optional[int]]
    m: Meta[int] = 3
    e: Param[Color] = Color.RED
    k: Constant[int] = 7
    p: Meta[Path] = field(default_factory=PathGenerator("leaf.txt"))


class Leaf2(Config):
    """Same parameter names as Leaf, other type identifier"""

    __xpmid__ = "xv.leaf2"

    i: Param[int]
    s: Param[str] = "d"
    o: Param[Optional[int]]
    m: Meta[int] = 3
    e: Param[Color] = Color.RED
    k: Constant[int] = 7


class Pair(Config):
    """Two sibling string parameters and two sibling ints"""

    __xpmid__ = "xv.pair"

    a: Param[str]
    b: Param[str]
    x: Param[int] = 0
    y: Param[int] = 0


class Floats(Config):
    __xpmid__ = "xv.floats"

    where: Meta[Optional[Path]]
    wheres: Meta[Dict[str, Path]] = {}
    f: Param[float]
    g: Param[float] = 0.5
    n: Param[int] = 1
    flag: Param[bool] = False
    e: Param[Shade] = Shade.RED


class Node(Config):
    """Nested configurations"""

    __xpmid__ = "xv.node"

    x: Param[int] = 0
    child: Param[Leaf]
    other: Param[Optional[Leaf]]
    aux: Meta[Optional[Leaf]]
    path: Meta[Path] = field(default_factory=PathGenerator("node.bin"))


class Top(Config):
    __xpmid__ = "xv.top"

    n1: Param[Node]
    n2: Param[Optional[Node]]
    leaf: Param[Optional[Leaf]]
    t: Param[int] = 5


class Bag(Config):
    """Containers"""

    __xpmid__ = "xv.bag"

    xs: Param[List[Leaf]] = []
    d: Param[Dict[str, Leaf]] = {}
    ints: Param[List[int]] = []
    ints2: Param[List[int]] = []
    strs: Param[List[str]] = []
    strs2: Param[List[str]] = []
    di: Param[Dict[str, int]] = {}
    di2: Param[Dict[str, int]] = {}
    dd: Param[Dict[str, Dict[str, int]]] = {}
    ll: Param[List[List[int]]] = []
    ls: Param[List[List[str]]] = []
    dl: Param[Dict[str, List[Leaf]]] = {}
    lls: Param[List[List[Leaf]]] = []
    ld: Param[List[Dict[str, Leaf]]] = []
    out: Meta[Path] = field(default_factory=PathGenerator("bag.out"))


class CycA(Config):
    __xpmid__ = "xv.cyca"

    v: Param[int] = 0
    b: Param[Optional["CycB"]]


class CycB(Config):
    __xpmid__ = "xv.cycb"

    v: Param[int] = 0
    c: Param[Optional["CycC"]]
    a: Param[Optional["CycA"]]


class CycC(Config):
    __xpmid__ = "xv.cycc"

    v: Param[int] = 0
    a: Param[Optional[CycA]]
    b: Param[Optional[CycB]]


class Pre(LightweightTask):
    __xpmid__ = "xv.pre"

    z: Param[int]

    def execute(self):
        from xv.defs import calls

        calls.record("execute", self)


class Pre2(LightweightTask):
    __xpmid__ = "xv.pre2"

    z: Param[int]
    leaf: Param[Optional[Leaf]]

    def execute(self):
        from xv.defs import calls

        calls.record("execute", self)


class Out(Config):
    """Configuration returned by a task (task output)"""

    __xpmid__ = "xv.out"

    w: Param[int] = 0


class Produce(Task):
    """A task whose output is itself"""

    __xpmid__ = "xv.produce"

    x: Param[int]
    leaf: Param[Optional[Leaf]]
    stamp: Meta[Path] = field(default_factory=PathGenerator("produce.stamp"))

    def execute(self):
        from xv.defs import calls

        calls.record("execute", self)


class Produce2(Task):
    """A task whose output is another configuration"""

    __xpmid__ = "xv.produce2"

    x: Param[int]
    out: Param[Out]

    def task_outputs(self, dep):
        return dep(self.out)

    def execute(self):
        from xv.defs import calls

        calls.record("execute", self)


class Consume(Task):
    __xpmid__ = "xv.consume"

    y: Param[int] = 0
    src: Param[Optional[Produce]]
    src2: Param[Optional[Out]]
    srcs: Param[List[Produce]] = []
    dsrc: Param[Dict[str, Produce]] = {}
    node: Param[Optional["Wrap"]]
    result: Meta[Path] = field(default_factory=PathGenerator("result.txt"))

    def execute(self):
        from xv.defs import calls

        calls.record("execute", self)


class Wrap(Config):
    """Plain configuration holding a task-typed value"""

    __xpmid__ = "xv.wrap"

    inner: Param[Optional[Produce]]
    out: Param[Optional[Out]]
    n: Param[int] = 0


class Marker(Config):
    """Parameter-less configuration (type-only marker)"""

    __xpmid__ = "xv.marker"


class NoArgPre(LightweightTask):
    """Parameter-less pre-task"""

    __xpmid__ = "xv.noargpre"

    def execute(self):
        from xv.defs import calls

        calls.record("execute", self)


class Tagged(Config):
    __xpmid__ = "xv.tagged"

    marker: Param[Marker]
    markers: Param[List[Marker]] = []
    x: Param[int] = 0


ALL = [Marker, NoArgPre, Tagged, Leaf, Leaf2, Pair, Floats, Node, Top, Bag, CycA, CycB, CycC, Pre, Pre2, Out, Produce, Produce2, Consume, Wrap]


class GenTask(Task):
    """Task whose parameter graph carries generated paths at many positions"""

    __xpmid__ = "xv.gentask"

    x: Param[int] = 0
    node: Param[Optional[Node]]
    leaf: Param[Optional[Leaf]]
    leafs: Param[List[Leaf]] = []
    d: Param[Dict[str, Leaf]] = {}
    bag: Param[Optional[Bag]]
    own: Meta[Path] = field(default_factory=PathGenerator("own.txt"))
    # a generated value that is not a path (sealed between the two paths)
    seed: Param[int] = field(default_factory=lambda: 1234)
    log: Meta[Path] = field(default_factory=PathGenerator("log.txt"))

    def execute(self):
        from xv.defs import calls

        calls.record("execute", self)


ALL.append(GenTask)


def _post_init(self):
    """Records the call and whether every parameter was already set"""
    from xv.defs import calls

    names = list(self.__xpmtype__.arguments.keys())
    calls.record("post_init", self, all_set=all(hasattr(self, n) for n in names))


for _cls in ALL:
    _cls.__post_init__ = _post_init
