"""Universe for C20: deprecated subclasses of the ident universe classes"""

from typing import Optional

from experimaestro import Param, Task, deprecate

from xv.defs import ident as U


@deprecate
class LeafOld(U.Leaf):
    __xpmid__ = "xv.old.leaf"


@deprecate
class NodeOld(U.Node):
    __xpmid__ = "xv.old.node"


@deprecate
class ProduceOld(U.Produce):
    __xpmid__ = "xv.old.produce"


@deprecate
class OutOld(U.Out):
    __xpmid__ = "xv.old.out"


class Universe:
    """ident universe in which the classes named in `which` are replaced by
    their deprecated subclasses"""

    def __init__(self, which):
        self.__dict__.update({k: getattr(U, k) for k in dir(U) if not k.startswith("_")})
        repl = {"Leaf": LeafOld, "Node": NodeOld, "Produce": ProduceOld, "Out": OutOld}
        for k in which:
            setattr(self, k, repl[k])


# --- repair part: a task class and its former incarnation (not yet deprecated)


class RTask(Task):
    __xpmid__ = "xv.rtask"

    x: Param[int]
    leaf: Param[Optional[U.Leaf]]

    def execute(self):
        pass


class RTaskFormer(RTask):
    """Former class of RTask: own type identifier until deprecate() is called"""

    __xpmid__ = "xv.former.rtask"


def set_deprecated(flag: bool):
    """Switches the deprecation of RTaskFormer on/off (module state!)"""
    xt = RTaskFormer.__getxpmtype__()
    if flag and not xt._deprecated:
        xt.deprecate()
    elif not flag and xt._deprecated:
        xt.identifier = xt._deprecated_identifier
        xt._deprecated = False
