"""Call log used by the universes (post-init / execute recording)"""

LOG = []


def reset():
    del LOG[:]


def record(kind, obj, **extra):
    LOG.append((kind, id(obj), type(obj).__name__, extra))
