"""Per-property texts of MANIFEST.json (see tools_manifest.py)"""

_SCHED_NOTE = (
    "Trusted: CrossHair's models of int/bool/list/dict and z3; the deterministic environment of xv/env/sched.py "
    "(FIFO loop, helper-thread completion = one atomic external event, model OS for processes and inter-process locks, "
    "insertion-ordered dependency sets with a symbolic reversal bit). Outside: schedules deviating from FIFO after the "
    "K-th choice point, statement-level races inside a callback or helper thread, real fcntl/inotify/psutil, more "
    "jobs/tokens than the shard bounds, several scheduler processes."
)
_IDENT_NOTE = (
    "Trusted: CrossHair's models (symbolic int, str built from code points, struct.pack('!q'), UTF-8 encoding, bytes) and z3; "
    "sha256 replaced by the concatenated stream (collision-freeness assumed); the reference signature/encoder xv/ref/signature.py "
    "(validated against golden identifiers of the pinned commit). Outside: graphs larger than the skeletons, strings longer than the "
    "shard lengths, NaN/-0.0/inf, ints beyond int64."
)

CHECKS = {
    "C01": {
        "text": "Bounded symbolic model checking of the real HashComputer / ConfigInformation.identifiers / seal / __unseal__ / dry-run submit: for 15 graph skeletons (nested, shared, cyclic, lists, dicts, task outputs, pre-tasks) every leaf value is symbolic and z3 decides every branch; the hashed byte stream of every node must equal the encoding of its canonical signature computed by an independent reference model, after an arbitrary (symbolic) history of identifier requests, sealing and unsealing (length 2-3 quick, 3-4 thorough). Concrete complement: golden identifiers of the pinned commit recomputed with the real sha256 in fresh processes under 3 PYTHONHASHSEED values.",
        "design_ref": "DESIGN.md §3 C01",
        "note": _IDENT_NOTE + " History conditions use concrete leaves (selectors only); PYTHONHASHSEED independence is sampled, not solved.",
    },
    "C02": {
        "text": "Metamorphic symbolic check on the real code: the same graph is built twice from the same symbolic leaves, one signature-neutral edit (explicit default, explicit None, Meta value, meta-flagged sub-configuration as value / list member / dict value and its content, tag, token dependency, other sealing context, other workspace / launcher at dry-run submit, class extended with defaulted / optional / Meta / generated parameters) is applied at a symbolic node; all hashed streams must coincide. CONFIRMED = for all leaf values and all nodes of the skeleton.",
        "design_ref": "DESIGN.md §3 C02",
        "note": _IDENT_NOTE,
    },
    "C03": {
        "text": "Symbolic injectivity check of the real encoder: for 400+ (quick) pairs of graph variants one structural edit apart (string length splits, list re-splitting, key renaming, element moved between sibling containers, parameter / type id / constant / enum changed, producing task, pre-task set, init-task order), with independent symbolic leaves on both sides, z3 shows that equal concatenated hashed streams imply equal canonical signatures. Two negative controls outside the property's domain (control characters; three-level dicts) must be refuted and reproduce with the real sha256, which shows the harness can see collisions.",
        "design_ref": "DESIGN.md §3 C03",
        "note": _IDENT_NOTE + " Nested configurations contribute variable-length streams on the stub where the real code contributes 32-byte digests: conservative. Quick: all but the first int of each side are one byte wide (the solver needs seconds per path to prove '!q' injective); dedicated full-range conditions are kept.",
    },
    "C04": {
        "text": "Bounded symbolic model checking of the real scheduler (aio_submit / aio_start / dependencychanged / JobDependency / JobLock) on a deterministic event loop: exit codes are unbounded symbolic ints, the delivery order of process exits, helper-thread completions, submissions and token notifications is a vector of symbolic choices (4 choice points quick, 7 thorough, then FIFO), DAG shape per shard (<=3 jobs quick, <=4 thorough); at every launch all transitive dependencies must have exited with 0. Plus dependency collection (updatedependencies) for 14 embedding positions of an upstream task (symbolic selector).",
        "design_ref": "DESIGN.md §3 C04",
        "note": _SCHED_NOTE,
    },
    "C06": {
        "text": "Same engine as C04 with the strongest oracle: at quiescence every job future is done, its result equals job.state, state == DONE iff exit code == 0 (no failed ancestor), no different state is assigned after the first finished one (every assignment is monitored), experiment.wait() is blocked until then and returns / raises exactly then, unfinishedJobs == 0, leaving the experiment does not hang; in-process counter token with symbolic total and requests; re-submission of a failed job. Found and drove the repair of three scheduler defects (see known_findings.json).",
        "design_ref": "DESIGN.md §3 C06",
        "note": _SCHED_NOTE,
    },
    "C07": {
        "text": "Same engine: symbolic exit codes make every subset of failing jobs a solver matter, submissions are schedule events (failure before / while / after the dependent is submitted). Oracle: jobs with a failed ancestor are never launched and end ERROR with failure_status DEPENDENCY; the others are launched exactly once and end per their own code; leaving the experiment raises FailedExperiment iff some job failed.",
        "design_ref": "DESIGN.md §3 C07",
        "note": _SCHED_NOTE,
    },
    "C08": {
        "text": "Same engine with a capacity monitor evaluated after every delivered event: the requests of jobs whose process is running sum to <= total. In-process token: total and requests symbolic unbounded ints (1<=r<=total). File token (real acquire/release/_update/TokenFile/on_created/on_deleted/watch code on a scratch directory): counts enumerated per shard (they are written to files), exit codes and schedule symbolic; two in-process tokens (partial acquisition); TWO SCHEDULER PROCESSES (own experiment, loop, pid and CounterToken instance) sharing the token directory, with the other process's filesystem notifications, the watcher threads and one preemption point before the spawn as schedule events, incl. an observer-only second process and the invariant that a running job has its token file.",
        "design_ref": "DESIGN.md §3 C08",
        "note": _SCHED_NOTE + " Multi-process: two processes, one job each, enumerated counts; own filesystem notifications are delivered at once; a token file observed half-written and more than two processes are outside.",
    },
    "C09": {
        "text": "Same runs as C08 with the quiescence oracle: token.available == total, no *.token file left, every job whose request fits has reached a final state, no undeliverable event remains; aborted starts (LockError) are reachable through token contention and two tokens. Two scheduler processes on one token directory: both see an idle token at full capacity at quiescence; fault clause: the first scheduler is killed at an enumerated point while its job may hold the token, the survivor reclaims it through the watcher thread and runs its own job.",
        "design_ref": "DESIGN.md §3 C09",
        "note": _SCHED_NOTE + " Multi-process model as in C08; a partially written token file and more than two processes are outside.",
    },
    "C10": {
        "text": "Symbolic crash-point exploration of the real TaskRunner (run.py is re-instrumented from the current source at each run with a tick before every statement): the tick of death, the kind of death (none/KILL/TERM/INT) and the body outcome are symbolic; one life is executed from every job-directory pre-state satisfying the invariant (.done => body completed earlier; no lock held) - an inductive step that covers any number of relaunches. Oracle: .done only if the body completed, lock dies with the process, body executed iff no .done at start, TERM/INT during the body leaves .failed and no .done, a job ending on its own leaves no .pid. Concrete complements: the script generated by the real CommandLineJob.prepare lists the job lock file; the instrumented copy is the imported source.",
        "design_ref": "DESIGN.md §3 C10",
        "note": "Trusted: the OS/interpreter model (signals delivered at statement boundaries, atexit at interpreter exit, locks released at process end), CrossHair + z3. Outside: death inside one statement, fork children, real signals/fcntl, a process that ends before the scheduler wrote its pid file.",
    },
    "C12": {
        "text": "Symbolic round trip through the real serialisation code (state_dict/from_state_dict and the params-file object list/fromParameters): for 15 skeletons with symbolic leaves and a meta flag (None/True/False) on a symbolic node, the reloaded graph must be isomorphic (classes, every value incl. ignored ones, sharing, meta flags, pre-tasks, task links), identifiers recomputed on it must equal the originals, the instance graph must carry the same values, and the produced structure must be JSON-native. save()/load() through real files and json text: concrete complement.",
        "design_ref": "DESIGN.md §3 C12",
        "note": _IDENT_NOTE + " The JSON text layer is trusted (C accelerator realises symbolic values). One open known finding (task whose output is one of its own parameters) is excluded from the identifier clause and reported as KNOWN-FINDING.",
    },
    "C14": {
        "text": "Symbolic mutation attempts on sealed graphs: after seal() / instance() / dry-run submit of 16 skeletons, a symbolic (kind, node, value) mutation attempt - assign int / Meta / None / container parameter, set_meta, add_pretasks - on any node must raise and leave values, meta flag and pre-tasks unchanged; every node must be sealed; identifiers (and the job path, concretely) before == after, with identifier requests interleaved; with an identifier request and a legitimate assignment BEFORE sealing, the frozen identifier must equal the reference encoding of the sealed content.",
        "design_ref": "DESIGN.md §3 C14",
        "note": _IDENT_NOTE + " In-place mutation of a list held by a sealed parameter bypasses set(): outside (the property speaks of assignments).",
    },
    "C18": {
        "text": "Bounded symbolic model checking of the implementation: HostSimpleRequirement.match/_add/__and__/__mul__, RequirementUnion.match, the cpu/cuda_gpu/duration constructors and LauncherRegistry.find are executed by CrossHair with every size, core count, duration and priority an unbounded symbolic int; z3 decides every branch, so a confirmed condition holds for all such values for the enumerated numbers of GPUs (<=3 quick, <=4 thorough), &-terms and |-alternatives. The text/programmatic clause parses concrete texts (template x number menu) and compares field-wise and on a symbolic host.",
        "design_ref": "DESIGN.md §3 C18",
        "note": "Trusted: CrossHair's int/list/dataclass models and z3; humanfriendly.parse_size/parse_timespan (only called on concrete text); arpeggio. Outside: list lengths beyond the shard bounds, texts outside the template menu, YAML registry loading.",
    },
}

CHECKS.update({
    "C05": {
        "text": "Real scheduler on the deterministic environment: (a) an identical configuration submitted again at an enumerated program position (which job: symbolic), interleaved with a symbolic schedule: same output object, one registered job per distinct configuration, at most one launch of a job that does not fail; (b) an earlier experiment run leaves success markers for an arbitrary subset of the plan (the other job directories are removed): those jobs are never launched again and stay DONE whatever happens to their dependencies, the others behave as in C06/C07; a failed job re-submitted and then submitted a third time; (c, task side) two or three processes of one job script run the real TaskRunner.run - rewritten from the current source into a coroutine yielding at the lock acquisition and at the task body - under a symbolic interleaving: the body never runs twice at once nor again after a success.",
        "design_ref": "DESIGN.md §3 C05, §8.2",
        "note": _SCHED_NOTE + " Clause (c) is checked on the task side only (the guard of last resort); whether two schedulers can both launch the same job is not modelled.",
    },
    "C11": {
        "text": "Two consecutive runs of the same plan in one model world: the first scheduler dies (loop, helper threads and inter-process locks vanish, job processes live on) after an enumerated number of delivered events (0..12, the events chosen symbolically); a new process runs the plan again with a symbolic schedule and symbolic exit codes. Oracle: final states equal the no-crash reference, every successful job was launched exactly once over both runs, no job is launched while its first process is alive (adoption through the pid file), the second run terminates.",
        "design_ref": "DESIGN.md §3 C11, §8.2",
        "note": _SCHED_NOTE + " The job process is the simplified model (marker + lock release atomically at exit); the real TaskRunner under death is C10's subject. OS behaviour (children surviving the parent, process groups) is outside.",
    },
    "C13": {
        "text": "Symbolic execution of the real FromPython walk / ObjectStore / fromParameters / load_objects(as_instance=True) on 19 skeletons (sharing, cycles, parameter-less nodes, the same pre-task attached at several nodes, init tasks): one instance per reachable configuration, wired like the graph (isomorphism check), __post_init__ exactly once per instance with all parameters set, every pre-task executed exactly once, init tasks once each after the pre-tasks and before the body; each conversion is done twice in the same process to expose state kept between loads; a pre-task referencing the node it is attached to (cycle through the pre-task), entered through the pre-task and through its owner.",
        "design_ref": "DESIGN.md §3 C13",
        "note": _IDENT_NOTE + " Recording __post_init__/execute is done by the universe classes (xv/defs).",
    },
    "C15": {
        "text": "For 7 base types x 7 container shapes x {required, Optional}: a candidate value is built from symbolic payloads, conforming or with exactly one constructor replaced at a symbolic depth by one of 11 other kinds; the real Type.validate / Argument.validate / ConfigInformation.set chain must store the coerced value (declared type at every depth, equal to the reference coercion) or raise and store nothing, in agreement with a 15-line reference predicate. Fail-fast: a required value removed at a symbolic position of a task's graph -> submit raises and the scheduler registry, counters, job folder and model OS stay empty.",
        "design_ref": "DESIGN.md §3 C15, §8.2",
        "note": "Trusted: CrossHair + z3, the reference predicate. Floats from a menu; replaced constructors carry concrete payloads (error messages would realise them). Outside: Union types other than top-level Optional, GenericType/Any, checkers. One open known finding (None accepted inside a container of configurations) is excluded and reported.",
    },
    "C16": {
        "text": "Histories of runs of one experiment name on the real experiment.__enter__/__exit__/aio_submit code: two consecutive runs (three in thorough), each submitting a subset of the jobs (first run's subset and both endings enumerated per shard, second subset symbolic) and ending normally, by an exception in the block or by the death of the scheduler after a symbolic number of delivered events. Oracle after each run: normal end -> links == jobs of that run, each pointing to its job directory, no jobs.bak; abnormal end -> jobs U jobs.bak covers the last completed plan and the jobs begun since, and the real `orphans` command lists none of them. Exclusivity: a second process entering the same experiment blocks and leaves the indexes untouched.",
        "design_ref": "DESIGN.md §3 C16",
        "note": _SCHED_NOTE + " Selectors only (symbolic_data false).",
    },
    "C17": {
        "text": "Real Sealer / PathGenerator / ConfigWalkContext / JobContext through dry-run submissions of a task whose graph carries up to 10 generated parameters (task, nested node and its child, direct value, list members, dict values with keys such as '0', 'child', 'out', a bag of leaves); which positions exist and which share one object are symbolic selectors (first three enumerated per shard). Oracle: every generated path is inside the job directory without '..', all are pairwise distinct, an identical second submission yields the same paths.",
        "design_ref": "DESIGN.md §3 C17",
        "note": "Trusted: CrossHair + z3; real sha256 (the job path embeds the identifier; hashed leaves are concrete per path). Selectors only. Outside: generator functions, names with '/', dict keys with '/'.",
    },
    "C19": {
        "text": "Filter semantics: 22 filter texts (=, var=var, in, not in, ~, @state, @name, and/or chains) compiled by the real grammar; the job's tag values (absent or 0..2 symbolic characters), state and name are symbolic; the compiled filter must agree with a reference evaluator of the documented meaning. Commands: the real `jobs clean` (process) and `orphans --clean` callbacks run on scratch workspaces whose job states / index memberships and flags (--perform, --clean, --ignore-old) are symbolic selectors; the set of removed directories must be exactly {finished and selected} if --perform else empty (never a running job), resp. exactly the unreferenced directories.",
        "design_ref": "DESIGN.md §3 C19",
        "note": "Trusted: CrossHair's str/regex models and z3; pyparsing on concrete text. Outside: jobs kill, parenthesised filters, --experiment.",
    },
    "C20": {
        "text": "Identifier part: for 10 skeletons and every non-empty subset of {Leaf, Node, Produce, Out} replaced by @deprecate'd subclasses, the hashed streams of all nodes (symbolic leaves) equal those of the graph built with the replacement classes. Repair part: job directories generated by the real GENERATE_ONLY machinery under the former identifier; per job a symbolic earlier-repair state (plain / linked / dangling link / moved), symbolic --fix/--cleanup; the real `deprecated list` command is run twice: data reachable under the new identifier, success marker visible there, multiset of regular files unchanged.",
        "design_ref": "DESIGN.md §3 C20",
        "note": _IDENT_NOTE + " The repair part uses real files and the real sha256 (selectors only).",
    },
})

_THOROUGH = {
    "C01": " Thorough tier: one end-to-end run (370 confirmed, 7 shards inconclusive for harness reasons corrected afterwards, not re-run).",
    "C06": " Thorough tier: two end-to-end runs; in the second one every condition was confirmed except one shard of token/indep3-111 that exceeded its time budget; that scenario was reduced to 4 choice points afterwards, not re-run.",
    "C11": " Thorough tier: the end-to-end run was stopped after 56/69 conditions (44 confirmed, 12 over budget); depth reduced afterwards, not re-run.",
    "C08": " Thorough tier: defined but not run end-to-end in this round.",
    "C09": " Thorough tier: defined but not run end-to-end in this round.",
}
for _k, _v in _THOROUGH.items():
    CHECKS[_k]["note"] += _v
for _k in CHECKS:
    if _k not in _THOROUGH:
        CHECKS[_k]["note"] += " Thorough tier: run end-to-end once, exit 0 (times in DESIGN.md §8.7)."

NOT_APPLICABLE = {}
