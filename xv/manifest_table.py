"""Per-property texts of MANIFEST.json (see tools_manifest.py)"""

CHECKS = {
    "C18": {
        "text": "Bounded symbolic model checking of the implementation: HostSimpleRequirement.match/_add/__and__/__mul__, RequirementUnion.match, the cpu/cuda_gpu/duration constructors and LauncherRegistry.find are executed by CrossHair with every size, core count, duration and priority an unbounded symbolic int; z3 decides every branch, so a confirmed condition holds for all such values for the enumerated numbers of GPUs (<=3 quick, <=4 thorough), &-terms and |-alternatives. The text/programmatic clause parses concrete texts (template x number menu) and compares field-wise and on a symbolic host.",
        "design_ref": "DESIGN.md §3 C18",
        "note": "Trusted: CrossHair's int/list/dataclass models and z3; humanfriendly.parse_size/parse_timespan (only called on concrete text); arpeggio. Outside: list lengths beyond the shard bounds, texts outside the template menu, YAML registry loading.",
    },
}

NOT_APPLICABLE = {}
