"""Per-property texts of MANIFEST.json (see tools_manifest.py)"""

_SCHED_NOTE = (
    "Trusted: CrossHair's models of int/bool/list/dict and z3; the deterministic environment of xv/env/sched.py "
    "(FIFO loop, helper-thread completion = one atomic external event, model OS for processes and inter-process locks, "
    "insertion-ordered dependency sets with a symbolic reversal bit). Outside: schedules deviating from FIFO after the "
    "K-th choice point, statement-level races inside a callback or helper thread, real fcntl/inotify/psutil, more "
    "jobs/tokens than the shard bounds, several scheduler processes."
)
_IDENT_NOTE = (
    "Trusted: CrossHair's models (symbolic int, str built from code points, struct.pack('!q'), UTF-8 encoding, bytes) and z3; "
    "sha256 replaced by the concatenated stream (collision-freeness assumed); the reference signature/encoder xv/ref/signature.py "
    "(validated against golden identifiers of the pinned commit). Outside: graphs larger than the skeletons, strings longer than the "
    "shard lengths, NaN/-0.0/inf, ints beyond int64."
)

CHECKS = {
    "C01": {
        "text": "Bounded symbolic model checking of the real HashComputer / ConfigInformation.identifiers / seal / __unseal__ / dry-run submit: for 15 graph skeletons (nested, shared, cyclic, lists, dicts, task outputs, pre-tasks) every leaf value is symbolic and z3 decides every branch; the hashed byte stream of every node must equal the encoding of its canonical signature computed by an independent reference model, after an arbitrary (symbolic) history of identifier requests, sealing and unsealing (length 2-3 quick, 3-4 thorough). Concrete complement: golden identifiers of the pinned commit recomputed with the real sha256 in fresh processes under 3 PYTHONHASHSEED values.",
        "design_ref": "DESIGN.md §3 C01",
        "note": _IDENT_NOTE + " History conditions use concrete leaves (selectors only); PYTHONHASHSEED independence is sampled, not solved.",
    },
    "C02": {
        "text": "Metamorphic symbolic check on the real code: the same graph is built twice from the same symbolic leaves, one signature-neutral edit (explicit default, explicit None, Meta value, meta-flagged sub-configuration as value / list member / dict value and its content, tag, token dependency, other sealing context, other workspace / launcher at dry-run submit, class extended with defaulted / optional / Meta / generated parameters) is applied at a symbolic node; all hashed streams must coincide. CONFIRMED = for all leaf values and all nodes of the skeleton.",
        "design_ref": "DESIGN.md §3 C02",
        "note": _IDENT_NOTE,
    },
    "C03": {
        "text": "Symbolic injectivity check of the real encoder: for 400+ (quick) pairs of graph variants one structural edit apart (string length splits, list re-splitting, key renaming, element moved between sibling containers, parameter / type id / constant / enum changed, producing task, pre-task set, init-task order), with independent symbolic leaves on both sides, z3 shows that equal concatenated hashed streams imply equal canonical signatures. Two negative controls outside the property's domain (control characters; three-level dicts) must be refuted and reproduce with the real sha256, which shows the harness can see collisions.",
        "design_ref": "DESIGN.md §3 C03",
        "note": _IDENT_NOTE + " Nested configurations contribute variable-length streams on the stub where the real code contributes 32-byte digests: conservative. Quick: all but the first int of each side are one byte wide (the solver needs seconds per path to prove '!q' injective); dedicated full-range conditions are kept.",
    },
    "C04": {
        "text": "Bounded symbolic model checking of the real scheduler (aio_submit / aio_start / dependencychanged / JobDependency / JobLock) on a deterministic event loop: exit codes are unbounded symbolic ints, the delivery order of process exits, helper-thread completions, submissions and token notifications is a vector of symbolic choices (4 choice points quick, 7 thorough, then FIFO), DAG shape per shard (<=3 jobs quick, <=4 thorough); at every launch all transitive dependencies must have exited with 0. Plus dependency collection (updatedependencies) for 14 embedding positions of an upstream task (symbolic selector).",
        "design_ref": "DESIGN.md §3 C04",
        "note": _SCHED_NOTE,
    },
    "C06": {
        "text": "Same engine as C04 with the strongest oracle: at quiescence every job future is done, its result equals job.state, state == DONE iff exit code == 0 (no failed ancestor), no different state is assigned after the first finished one (every assignment is monitored), experiment.wait() is blocked until then and returns / raises exactly then, unfinishedJobs == 0, leaving the experiment does not hang; in-process counter token with symbolic total and requests; re-submission of a failed job. Found and drove the repair of three scheduler defects (see known_findings.json).",
        "design_ref": "DESIGN.md §3 C06",
        "note": _SCHED_NOTE,
    },
    "C07": {
        "text": "Same engine: symbolic exit codes make every subset of failing jobs a solver matter, submissions are schedule events (failure before / while / after the dependent is submitted). Oracle: jobs with a failed ancestor are never launched and end ERROR with failure_status DEPENDENCY; the others are launched exactly once and end per their own code; leaving the experiment raises FailedExperiment iff some job failed.",
        "design_ref": "DESIGN.md §3 C07",
        "note": _SCHED_NOTE,
    },
    "C08": {
        "text": "Same engine with a capacity monitor evaluated after every delivered event: the requests of jobs whose process is running sum to <= total. In-process token: total and requests symbolic unbounded ints (1<=r<=total). File token (one CounterToken instance on a scratch directory, real acquire/release/_update/TokenFile code): counts enumerated per shard (they are written to files), exit codes and schedule symbolic.",
        "design_ref": "DESIGN.md §3 C08",
        "note": _SCHED_NOTE + " The multi-process clause (several schedulers sharing the token directory, stale availability, watchdog events) is NOT claimed in this round.",
    },
    "C09": {
        "text": "Same runs as C08 with the quiescence oracle: token.available == total, no *.token file left, every job whose request fits has reached a final state, no undeliverable event remains; aborted starts (LockError) are reachable through token contention.",
        "design_ref": "DESIGN.md §3 C09",
        "note": _SCHED_NOTE + " The fault clause (scheduler killed while its jobs hold tokens, reclaim through TokenFile.watch by another instance) is NOT claimed in this round.",
    },
    "C10": {
        "text": "Symbolic crash-point exploration of the real TaskRunner (run.py is re-instrumented from the current source at each run with a tick before every statement): the tick of death, the kind of death (none/KILL/TERM/INT) and the body outcome are symbolic; one life is executed from every job-directory pre-state satisfying the invariant (.done => body completed earlier; no lock held) - an inductive step that covers any number of relaunches. Oracle: .done only if the body completed, lock dies with the process, body executed iff no .done at start, TERM/INT during the body leaves .failed and no .done, a job ending on its own leaves no .pid.",
        "design_ref": "DESIGN.md §3 C10",
        "note": "Trusted: the OS/interpreter model (signals delivered at statement boundaries, atexit at interpreter exit, locks released at process end), CrossHair + z3. Outside: death inside one statement, fork children, real signals/fcntl, a process that ends before the scheduler wrote its pid file.",
    },
    "C12": {
        "text": "Symbolic round trip through the real serialisation code (state_dict/from_state_dict and the params-file object list/fromParameters): for 15 skeletons with symbolic leaves and a meta flag (None/True/False) on a symbolic node, the reloaded graph must be isomorphic (classes, every value incl. ignored ones, sharing, meta flags, pre-tasks, task links), identifiers recomputed on it must equal the originals, the instance graph must carry the same values, and the produced structure must be JSON-native. save()/load() through real files and json text: concrete complement.",
        "design_ref": "DESIGN.md §3 C12",
        "note": _IDENT_NOTE + " The JSON text layer is trusted (C accelerator realises symbolic values). One open known finding (task whose output is one of its own parameters) is excluded from the identifier clause and reported as KNOWN-FINDING.",
    },
    "C14": {
        "text": "Symbolic mutation attempts on sealed graphs: after seal() / instance() / dry-run submit of 16 skeletons, a symbolic (kind, node, value) mutation attempt - assign int / Meta / None / container parameter, set_meta, add_pretasks - on any node must raise and leave values, meta flag and pre-tasks unchanged; every node must be sealed; identifiers (and the job path, concretely) before == after, with identifier requests interleaved.",
        "design_ref": "DESIGN.md §3 C14",
        "note": _IDENT_NOTE + " In-place mutation of a list held by a sealed parameter bypasses set(): outside (the property speaks of assignments).",
    },
    "C18": {
        "text": "Bounded symbolic model checking of the implementation: HostSimpleRequirement.match/_add/__and__/__mul__, RequirementUnion.match, the cpu/cuda_gpu/duration constructors and LauncherRegistry.find are executed by CrossHair with every size, core count, duration and priority an unbounded symbolic int; z3 decides every branch, so a confirmed condition holds for all such values for the enumerated numbers of GPUs (<=3 quick, <=4 thorough), &-terms and |-alternatives. The text/programmatic clause parses concrete texts (template x number menu) and compares field-wise and on a symbolic host.",
        "design_ref": "DESIGN.md §3 C18",
        "note": "Trusted: CrossHair's int/list/dataclass models and z3; humanfriendly.parse_size/parse_timespan (only called on concrete text); arpeggio. Outside: list lengths beyond the shard bounds, texts outside the template menu, YAML registry loading.",
    },
}

NOT_APPLICABLE = {}
