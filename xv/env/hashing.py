"""Identifier stream stubs (DESIGN §2.3)

* ``Rec`` replaces hashlib.sha256 inside core.objects: ``digest`` returns the
  concatenation of everything that was fed to the hasher. Identifier equality
  is then equality of the encoded byte streams (assumption: sha256 is
  collision free).
* ``FakeInspect`` replaces inspect.stack/getframeinfo (error-message only; the
  real one costs seconds per path under tracing).
"""

import hashlib as _hashlib
import inspect as _inspect


class Stream:
    """What Rec.digest returns: the byte stream, wrapped so that .hex() (used
    for job paths and log messages only) does not force the solver to
    enumerate concrete byte values"""

    def __init__(self, b):
        self.b = b

    def hex(self):
        return "0000"

    def __eq__(self, other):
        return self.b == (other.b if isinstance(other, Stream) else other)

    def __ne__(self, other):
        return not self.__eq__(other)

    def __lt__(self, other):
        return self.b < other.b

    def __hash__(self):
        return 0

    def __len__(self):
        return len(self.b)


def raw(x):
    return x.b if isinstance(x, Stream) else x


class Rec:
    def __init__(self):
        self.chunks = []

    def update(self, b):
        self.chunks.append(raw(b))

    def digest(self):
        out = b""
        for c in self.chunks:
            out = out + c
        return Stream(out)


class FakeHashlib:
    sha256 = staticmethod(lambda: Rec())


class _FI:
    filename = "/xv/harness.py"
    lineno = 1


class FakeInspect:
    def __getattr__(self, k):
        return getattr(_inspect, k)

    stack = staticmethod(lambda: [None, [None]])
    getframeinfo = staticmethod(lambda f: _FI)


def install(mode):
    import experimaestro.core.objects as O
    import experimaestro.core.types as T
    from experimaestro.scheduler.dependencies import Dependency
    from experimaestro.scheduler.base import Job

    # CrossHair deep-copies ("realises") any object interpolated into an
    # f-string; the dry-run messages interpolate dependencies / jobs, whose
    # object graph cannot be deep-copied (types.Identifier.__getattr__ recurses
    # on a half-built copy). These objects hold no symbolic state of interest.
    for cls in (Dependency, Job, T.Identifier, T.Type):
        cls.__ch_deep_realize__ = lambda self, memo: self
    O.inspect = FakeInspect()
    if mode in ("check", "reach"):
        O.hashlib = FakeHashlib
    else:
        # replay / cover: the real sha256
        O.hashlib = _hashlib


def hasher_factory(mode):
    if mode in ("check", "reach"):
        return Rec
    return _hashlib.sha256
