"""Deterministic scheduler environment (DESIGN §2.3).

The real Scheduler / experiment / Job / tokens / locking code runs on a
pure-Python event loop whose only sources of nondeterminism are *external
events* kept in a World object: completions of helper threads
(asyncThreadcheck), exits of job processes, steps of the main thread,
filesystem-watcher notifications. The harness delivers one enabled event at
a time (symbolic choice) and then runs the loop FIFO until it is idle.
"""

import asyncio
import collections
import json
import logging
import os
import sys
import threading
from asyncio import events, futures, tasks
from pathlib import Path

from xv import rt


class WouldBlock(BaseException):
    """The calling (main) thread would block here: the awaited task is not
    done although the loop is idle"""

    def __init__(self, future):
        super().__init__("main thread would block")
        self.future = future


class HarnessError(Exception):
    """The model was driven outside of what it can represent"""


# ---------------------------------------------------------------- loop


class DetLoop(asyncio.AbstractEventLoop):
    def __init__(self, world, pid):
        self._ready = collections.deque()
        self.world = world
        self.pid = pid  # simulated pid of the scheduler process owning this loop
        self.exceptions = []
        self.alive = True

    def get_debug(self):
        return False

    def is_running(self):
        return True

    def is_closed(self):
        return False

    def time(self):
        return 0.0

    def stop(self):
        pass

    def create_future(self):
        return futures._PyFuture(loop=self)

    def create_task(self, coro, *, name=None, context=None):
        return tasks._PyTask(coro, loop=self, name=name, context=context)

    def call_soon(self, cb, *args, context=None):
        h = events.Handle(cb, args, self, context)
        if self.alive:
            self._ready.append(h)
        return h

    call_soon_threadsafe = call_soon

    def call_exception_handler(self, ctx):
        self.exceptions.append(ctx)

    def _timer_handle_cancelled(self, h):
        pass

    def drain(self):
        """Runs ready callbacks FIFO until the loop is idle"""
        w = self.world
        old_pid = w.current_pid
        w.current_pid = self.pid
        xp = getattr(self, "xp", None)
        if xp is not None:
            # module-level "current experiment/workspace" of the process owning this loop
            import experimaestro.scheduler.base as SB
            from experimaestro.scheduler.workspace import Workspace

            SB.experiment.CURRENT = xp
            Workspace.CURRENT = xp.workspace
        old = events._get_running_loop()
        events._set_running_loop(None)
        events._set_running_loop(self)
        n = 0
        try:
            while self._ready and self.alive:
                h = self._ready.popleft()
                if not h._cancelled:
                    h._run()
                n += 1
                if n > 5000:
                    raise HarnessError("loop does not become idle (livelock)")
        finally:
            events._set_running_loop(None)
            if old is not None:
                events._set_running_loop(old)
            w.current_pid = old_pid


class DoneFuture:
    """What the stub of asyncio.run_coroutine_threadsafe returns"""

    def __init__(self, task, loop):
        self.task, self.loop = task, loop

    def done(self):
        return self.task.done()

    def result(self, timeout=None):
        self.loop.drain()
        if not self.task.done():
            raise WouldBlock(self)
        return self.task.result()


def det_run_coroutine_threadsafe(coro, loop):
    return DoneFuture(loop.create_task(coro), loop)


class FakeCentral:
    def __init__(self, loop):
        self.loop = loop
        old = events._get_running_loop()
        events._set_running_loop(None)
        events._set_running_loop(loop)
        try:
            self.exitCondition = asyncio.Condition()
            self.dependencyLock = asyncio.Lock()
        finally:
            events._set_running_loop(None)
            if old is not None:
                events._set_running_loop(old)


# ---------------------------------------------------------------- world


class Event:
    __slots__ = ("label", "fire", "enabled", "owner")

    def __init__(self, label, fire, enabled, owner):
        self.label, self.fire, self.enabled, self.owner = label, fire, enabled, owner


class Proc:
    def __init__(self, pid, parent, job):
        self.pid, self.parent, self.job = pid, parent, job
        self.state = "running"
        self.code = None
        self.locked = False


class World:
    """State that survives the death of a scheduler: external events, job
    processes, inter-process locks"""

    def __init__(self, root: Path):
        self.root = root
        self.events = []
        self.procs = {}
        self.iplocks = {}  # path -> owner pid
        self.next_pid = 1000
        self.current_pid = 1
        self.trace = []  # ("launch", jobkey) / ("exit", jobkey, code) / ...
        self.swallowed = []
        self.script2job = {}
        self.loops = {}
        self.codes = {}  # job key -> (symbolic) exit code
        self.fswatchers = []
        self.reverse_sets = False
        self.state_log = []
        self.fs_events = False  # deliver filesystem-watcher events (multi-process token model)
        self.silent_kill = False  # exit code -9 = killed without writing a marker (restart scenarios)
        self.fs_snapshot = {}
        self.reqs = {}  # job key -> token request (capacity monitor across schedulers)

    # --- events
    def add(self, label, fire, enabled=None, owner=None):
        e = Event(label, fire, enabled or (lambda: True), owner)
        self.events.append(e)
        return e

    def enabled(self):
        return [e for e in self.events if e.enabled()]

    def deliver(self, e):
        self.events.remove(e)
        self.trace.append(("deliver",) + tuple(e.label))
        old = self.current_pid
        if e.owner is not None:
            self.current_pid = e.owner.pid
        try:
            e.fire()
        finally:
            self.current_pid = old
        if e.owner is not None and e.owner.alive:
            e.owner.drain()
        else:
            for loop in self.loops.values():
                if loop.alive:
                    loop.drain()
        if self.fswatchers and self.fs_events:
            self.fs_scan(author=e.owner.pid if e.owner is not None else None)

    def new_loop(self, pid):
        loop = DetLoop(self, pid)
        self.loops[pid] = loop
        return loop

    def kill_scheduler(self, loop):
        """The scheduler process dies: its loop, its pending helper threads
        and its inter-process locks vanish; its job processes live on"""
        loop.alive = False
        loop._ready.clear()
        self.events = [e for e in self.events if e.owner is not loop]
        for path in [p for p, o in self.iplocks.items() if o == loop.pid]:
            del self.iplocks[path]

    # --- filesystem watching (token directories)
    def fs_scan(self, author=None):
        """Turns the changes of the watched directories since the last scan
        into pending watcher events, one per change and per watching process
        (watchdog reports a process's own changes too: those are delivered
        at once - they find the change already reflected in the instance's
        cache - so that only the notifications crossing process boundaries
        are schedule choices)"""

        class FsEvent:
            def __init__(self, p):
                self.src_path = str(p)
                self.is_directory = False

        for (pid, handler, path) in list(self.fswatchers):
            loop = self.loops.get(pid)
            if loop is None or not loop.alive:
                continue
            key = (pid, str(path))
            old = self.fs_snapshot.get(key, {})
            new = {}
            if path.is_dir():
                for f in sorted(path.iterdir()):
                    if f.name.endswith(".lock"):
                        continue
                    try:
                        new[f.name] = f.read_text()
                    except OSError:
                        pass
            self.fs_snapshot[key] = new
            pending = []
            for name in new:
                if name not in old:
                    pending.append((("fs", pid, "created", name), (lambda h=handler, p=path / name: h.on_created(FsEvent(p)))))
                elif old[name] != new[name]:
                    pending.append((("fs", pid, "modified", name), (lambda h=handler, p=path / name: h.on_modified(FsEvent(p)))))
            for name in old:
                if name not in new:
                    pending.append((("fs", pid, "deleted", name), (lambda h=handler, p=path / name: h.on_deleted(FsEvent(p)))))
            for label, fire in pending:
                if author is not None and author == pid:
                    old_pid = self.current_pid
                    self.current_pid = pid
                    try:
                        fire()
                    finally:
                        self.current_pid = old_pid
                    loop.drain()
                else:
                    self.add(label, fire, owner=loop)

    # --- inter-process locks
    def lock_free(self, path, pid):
        o = self.iplocks.get(str(path))
        return o is None or o == pid

    def lock_acquire(self, path, pid):
        o = self.iplocks.get(str(path))
        if o is not None and o != pid:
            raise HarnessError(f"lock {path} acquired while held by {o} (event enabled too early)")
        self.iplocks[str(path)] = pid

    def lock_release(self, path, pid):
        if self.iplocks.get(str(path)) == pid:
            del self.iplocks[str(path)]

    # --- processes
    def running_procs(self):
        return [p for p in self.procs.values() if p.state == "running"]


W: World = None


def world() -> World:
    return W


# ---------------------------------------------------------------- stubs


def det_asyncThreadcheck(name, func, *args, **kwargs):
    """The helper thread's work + completion is one external event"""
    w = W
    loop = events._get_running_loop()
    if loop is None:
        # (the loop of the simulated process on whose behalf the code runs)
        loop = w.loops[w.current_pid]
    fut = loop.create_future()
    enabled = None
    slf = getattr(func, "__self__", None)
    if isinstance(slf, ModelIPLock) and getattr(func, "__name__", "") == "__enter__":
        pid = loop.pid
        enabled = lambda: w.lock_free(slf.path, pid)  # noqa: E731
    elif isinstance(slf, OSProcess) and getattr(func, "__name__", "") == "wait":
        enabled = lambda: w.procs[slf.pid].state == "exited"  # noqa: E731

    def fire():
        try:
            r = func(*args, **kwargs)
        except Exception as e:
            # as in the real helper thread: the exception is logged, the
            # future is never resolved
            w.swallowed.append(("thread", name, repr(e)))
            return
        if not fut.done():
            fut.set_result(r)

    lbl = name if isinstance(name, str) else str(name)
    w.add(("thread", lbl), fire, enabled, owner=loop)
    return fut


class ModelIPLock:
    """Model of fasteners.InterProcessLock / connectors.local.InterProcessLock
    (POSIX record locks do not conflict inside one real process)"""

    def __init__(self, path, max_delay=-1):
        self.path = str(path)
        self.max_delay = max_delay
        self.acquired = False
        self.pid = None

    def acquire(self, blocking=True, **kw):
        w = W
        pid = w.current_pid
        if not w.lock_free(self.path, pid):
            if not blocking:
                return False
            raise WouldBlockLock(self.path)
        w.lock_acquire(self.path, pid)
        self.acquired, self.pid = True, pid
        return True

    def release(self):
        W.lock_release(self.path, self.pid)
        self.acquired = False

    def __enter__(self):
        self.acquire()
        return self

    def __exit__(self, *a):
        self.release()

    # experimaestro.locking.Lock interface (async use in aio_start)
    async def __aenter__(self):
        return await det_asyncThreadcheck("lock (aenter)", self.__enter__)

    async def __aexit__(self, *args):
        return await det_asyncThreadcheck("lock (aexit)", self.__exit__, *args)


class WouldBlockLock(BaseException):
    """A synchronous acquire of an inter-process lock held by another process"""


class FakeFasteners:
    InterProcessLock = ModelIPLock


class OSProcess:
    """Handle on a simulated job process (connectors.Process interface)"""

    def __init__(self, pid, waiter):
        self.pid = pid
        self.waiter = waiter  # pid of the process holding this handle

    def __repr__(self):
        return f"OSProcess({self.pid})"

    def tospec(self):
        return {"type": "xv", "pid": self.pid}

    @staticmethod
    def fromspec(connector, spec):
        p = W.procs.get(spec["pid"])
        if p is None or p.state != "running":
            return None
        return OSProcess(spec["pid"], W.current_pid)

    def wait(self):
        p = W.procs[self.pid]
        if p.state != "exited":
            raise HarnessError("wait() on a running process (event enabled too early)")
        # like psutil for a process that is not our child: no exit status
        if p.parent != self.waiter:
            return None
        return p.code

    async def aio_state(self):
        from experimaestro.connectors import ProcessState

        p = W.procs[self.pid]
        return ProcessState.RUNNING if p.state == "running" else ProcessState.FINISHED

    async def aio_isrunning(self):
        return (await self.aio_state()).running

    async def aio_code(self):
        return await det_asyncThreadcheck("aio_code", self.wait)

    def kill(self):
        pass


def jobkey(job):
    return getattr(job.config, "xv_key", None)


class VerifProcessBuilder:
    def __init__(self):
        self.command = []
        self.environ = {}
        self.stdin = self.stdout = self.stderr = None
        self.detach = True

    def start(self, task_mode=False):
        w = W
        job = w.script2job[self.command[-1]]
        pid = w.next_pid
        w.next_pid += 1
        parent = w.current_pid
        proc = Proc(pid, parent, job)
        w.procs[pid] = proc
        key = jobkey(job)
        w.trace.append(("launch", key, pid))
        lockpath = str(job.lockpath)

        def fire():
            # the task runner takes the job lock, runs the body, writes the
            # marker and dies (its lock dies with it)
            w.lock_acquire(lockpath, pid)
            code = w.codes.get(key, 0)
            if code == 0:
                job.donepath.touch()
            elif w.silent_kill and code == -9:
                pass  # killed outright (SIGKILL, OOM): the runner writes no marker
            else:
                job.failedpath.write_text("1")
            w.lock_release(lockpath, pid)
            proc.state, proc.code = "exited", code
            w.trace.append(("exit", key, pid))

        w.add(("exit", key), fire, enabled=lambda: w.lock_free(lockpath, pid))
        return OSProcess(pid, parent)


def make_connector(localpath):
    from experimaestro.connectors.local import LocalConnector

    class VerifConnector(LocalConnector):
        def lock(self, path, max_delay=-1):
            return ModelIPLock(path, max_delay)

        def processbuilder(self):
            return VerifProcessBuilder()

        def createtoken(self, name, total):
            from experimaestro.tokens import CounterToken

            tokendir = self.localpath / "tokens"
            tokendir.mkdir(exist_ok=True, parents=True)
            # one CounterToken instance per simulated process (the real
            # registry is per process as well)
            key = (W.current_pid, name)
            reg = W.__dict__.setdefault("tokens", {})
            if key not in reg:
                reg[key] = CounterToken(name, tokendir / ("%s.counter" % name), total)
            return reg[key]

    return VerifConnector(localpath)


def make_launcher(localpath):
    from experimaestro.launchers import Launcher

    class VerifLauncher(Launcher):
        def scriptbuilder(self):
            raise NotImplementedError()

        def __str__(self):
            return "VerifLauncher"

    return VerifLauncher(make_connector(localpath))


def job_factory(xpmtype):
    """taskcommandfactory for the task classes of the scheduler universe"""
    from experimaestro.commandline import CommandLine, CommandLineJob

    class VerifJob(CommandLineJob):
        async def aio_run(self):
            # In the multi-process model another process may act between the
            # acquisition of the dependency locks (token file written) and the
            # spawning of the job process (pid file written): one explicit
            # preemption point, delivered like a helper-thread completion
            if W is not None and W.fs_events:
                await det_asyncThreadcheck("spawn", lambda: None)
            return await super().aio_run()

        def prepare(self, overwrite=False):
            self.path.mkdir(parents=True, exist_ok=True)
            script = self.path / "job.py"
            W.script2job[str(script)] = self
            return script

    def create(pyobject, *, launcher=None, workspace=None, run_mode=None):
        return VerifJob(CommandLine(), pyobject, launcher=launcher, workspace=workspace, run_mode=run_mode)

    return create


class OrderedSet:
    """Insertion-ordered replacement for the id-hashed sets Job.dependencies
    and Dependents._dependents (iteration order becomes an explicit choice)"""

    def __init__(self, it=()):
        self.items = []
        for x in it:
            self.add(x)

    def add(self, x):
        for y in self.items:
            if y is x:
                return
        self.items.append(x)

    def update(self, it):
        for x in it:
            self.add(x)

    def remove(self, x):
        self.items = [y for y in self.items if y is not x]

    def discard(self, x):
        self.remove(x)

    def __iter__(self):
        if W is not None and W.reverse_sets:
            return iter(list(reversed(self.items)))
        return iter(list(self.items))

    def __len__(self):
        return len(self.items)

    def __bool__(self):
        return bool(self.items)

    def __contains__(self, x):
        return any(y is x for y in self.items)


class NoWorker:
    """Inert replacement of TaskOutputsWorker (dynamic outputs are outside)"""

    def __init__(self, xp):
        import queue

        self.queue = queue.Queue()

    def start(self):
        pass

    def watch_output(self, watched):
        raise HarnessError("dynamic task outputs are outside the model")


class FakeSignal:
    SIGINT, SIGTERM = 2, 15

    def __init__(self):
        self.handlers = {}

    def getsignal(self, s):
        return self.handlers.get(s)

    def signal(self, s, h):
        old = self.handlers.get(s)
        self.handlers[s] = h
        return old


class _RecLogger:
    """Replaces module loggers: records exceptions that the scheduler logs
    and swallows (so that a stub/harness error cannot hide behind them)"""

    def __init__(self):
        pass

    def _rec(self, kind, msg, kwargs):
        ei = sys.exc_info()
        if ei[0] is not None and W is not None:
            W.swallowed.append((kind, str(msg)[:80], ei[0].__name__, repr(ei[1])[:200]))

    def debug(self, *a, **k):
        pass

    def info(self, *a, **k):
        pass

    def warning(self, msg="", *a, **k):
        self._rec("warning", msg, k)

    def error(self, msg="", *a, **k):
        self._rec("error", msg, k)

    def exception(self, msg="", *a, **k):
        self._rec("exception", msg, k)

    def isEnabledFor(self, level):
        return False


class FakeThreadingForTokens:
    """threading as seen from tokens.py: real locks, watcher threads become
    external events"""

    Lock = threading.Lock

    class Thread:
        def __init__(self, target=None, name=None, args=(), kwargs=None):
            self.target = target

        def start(self):
            w = W
            pid = w.current_pid
            tf = getattr(self.target, "__closure__", None)
            # TokenFile.watch: the thread starts at once; its body blocks on the
            # job lock and then on the watched process (see fire() below)
            cells = {}
            if tf:
                for name, cell in zip(self.target.__code__.co_freevars, tf):
                    cells[name] = cell.cell_contents
            lockpath = cells.get("lockpath")
            pidpath = cells.get("pidpath")

            def unblocked():
                if lockpath is not None and not w.lock_free(str(lockpath), pid):
                    return False
                if pidpath is not None and pidpath.is_file():
                    try:
                        spec = json.loads(pidpath.read_text())
                        p = w.procs.get(spec.get("pid"))
                        if p is not None and p.state == "running":
                            return False
                    except Exception:
                        pass
                return True

            loop = w.loops.get(pid)
            label = ("watch", str(cells.get("self").path.name) if cells.get("self") is not None else "?")

            def fire():
                # The thread body runs as far as it can: when it would block
                # (job lock held by another process, watched process still
                # running) the attempt is abandoned and the body is run again
                # from the start once the blocking condition is gone - the
                # part before a blocking point only reads.
                old = w.current_pid
                w.current_pid = pid
                try:
                    self.target()
                except WouldBlockLock:
                    w.add(label, fire, unblocked, owner=loop)
                except HarnessError as e:
                    if "running process" in str(e):
                        w.add(label, fire, unblocked, owner=loop)
                    else:
                        w.swallowed.append(("watch-thread", repr(e)))
                except Exception as e:
                    w.swallowed.append(("watch-thread", repr(e)))
                finally:
                    w.current_pid = old

            # first attempt: the thread starts at once (it is not synchronised with anything)
            w.add(label, fire, None, owner=loop)


class FakeIpcom:
    """ipc.ipcom(): filesystem watching is driven by the harness"""

    def fswatch(self, handler, path, recursive=False):
        W.fswatchers.append((W.current_pid, handler, Path(path)))
        return object()

    def fsunwatch(self, watcher):
        pass


_installed = [False]


def install():
    """Rebinds names in the importing modules (no change to /repo)"""
    if _installed[0]:
        return
    _installed[0] = True
    import experimaestro.scheduler.base as SB
    import experimaestro.scheduler.dependencies as SD
    import experimaestro.scheduler.dynamic_outputs as DO
    import experimaestro.locking as LK
    import experimaestro.connectors as CN
    import experimaestro.tokens as TK
    import experimaestro.commandline as CL
    import experimaestro.utils as UT

    logging.disable(logging.CRITICAL)
    os.environ["PYTEST_CURRENT_TEST"] = "xv"
    sys._called_from_test = True

    for m in (SB, LK, CN):
        m.asyncThreadcheck = det_asyncThreadcheck

    class FakeAsyncio:
        def __getattr__(self, k):
            return getattr(asyncio, k)

        run_coroutine_threadsafe = staticmethod(det_run_coroutine_threadsafe)

    SB.asyncio = FakeAsyncio()

    def create_central(name):
        w = W
        loop = w.new_loop(w.current_pid)
        return FakeCentral(loop)

    SB.SchedulerCentral.create = staticmethod(create_central)
    DO.TaskOutputsWorker = NoWorker
    SB.signal = FakeSignal()
    SB.SIGNAL_HANDLER = SB.SignalHandler()
    rec = _RecLogger()
    SB.logger = rec
    LK.logger = rec
    CL.logger = rec
    TK.logger = rec
    TK.logging = rec
    SB.logging = rec

    CN.Process.HANDLERS = {"xv": OSProcess}

    # ordered sets
    job_init = SB.Job.__init__

    def Job_init(self, *a, **k):
        job_init(self, *a, **k)
        self.dependencies = OrderedSet(self.dependencies)

    SB.Job.__init__ = Job_init
    dep_init = SD.Dependents.__init__

    def Dependents_init(self):
        dep_init(self)
        self._dependents = OrderedSet()

    SD.Dependents.__init__ = Dependents_init

    # job state monitor
    def Job_setattr(self, name, value):
        if name == "state" and W is not None:
            W.state_log.append((jobkey(self), value))
        object.__setattr__(self, name, value)

    SB.Job.__setattr__ = Job_setattr

    # tokens
    TK.fasteners = FakeFasteners
    TK.threading = FakeThreadingForTokens
    TK.ipcom = lambda: FakeIpcom()
    TK.CounterToken.TOKENS = {}


def reset(root: Path) -> World:
    """Fresh world for one harness execution"""
    global W
    import experimaestro.scheduler.base as SB
    import experimaestro.tokens as TK
    from experimaestro.scheduler.workspace import Workspace

    install()
    W = World(root)
    SB.experiment.CURRENT = None
    Workspace.CURRENT = None
    SB.SIGNAL_HANDLER.experiments = set()
    TK.CounterToken.TOKENS = {}
    events._set_running_loop(None)
    return W
