import argparse
import os
import sys


def main():
    ap = argparse.ArgumentParser(prog="xv")
    sub = ap.add_subparsers(dest="cmd", required=True)
    c = sub.add_parser("check")
    c.add_argument("prop")
    c.add_argument("--tier", default=os.environ.get("VERIF_TIER", "quick"), choices=["quick", "thorough"])
    c.add_argument("--only", action="append", help="restrict to conditions whose name contains this")
    c.add_argument("-q", action="store_true")
    r = sub.add_parser("replay")
    r.add_argument("path")
    sub.add_parser("replay-json")
    ls = sub.add_parser("list")
    ls.add_argument("prop")
    ls.add_argument("--tier", default="quick")
    a = ap.parse_args()

    from xv import engine

    if a.cmd == "check":
        seed = int(os.environ.get("VERIF_SEED", "0") or 0)
        sys.exit(engine.check(a.prop, a.tier, seed=seed, only=a.only, verbose=not a.q))
    if a.cmd == "replay":
        sys.exit(engine.replay_file(a.path))
    if a.cmd == "replay-json":
        engine.do_replay_json()
        return
    if a.cmd == "list":
        mod = engine.harness_module(a.prop)
        for c in mod.conditions(a.tier):
            print(c["name"], c.get("shard"), c.get("timeout"))


main()
