"""xv — solver-based checking of the real experimaestro code (see DESIGN.md)"""
