"""Worker process: runs a batch of conditions under CrossHair and prints one
JSON line per finished condition on stdout (prefixed with ``@@``).

python -m xv.worker   (job list as JSON on stdin)
"""

import ast
import importlib
import json
import os
import re
import sys
import time
import traceback


def _setup_crosshair():
    """The three deliberate adjustments of CrossHair (DESIGN §2.2) and the
    counters used in the evidence files"""
    import z3
    from crosshair import enforce, statespace
    from crosshair.register_contract import REGISTERED_CONTRACTS
    import crosshair.core_and_libs  # noqa: F401  (registers the library models)

    # (2) drop the symbolic clock / random contracts
    for cfn in list(REGISTERED_CONTRACTS):
        mod = getattr(cfn, "__module__", None)
        qn = getattr(cfn, "__qualname__", "") or ""
        slf = getattr(cfn, "__self__", None)
        if (
            mod in ("time", "random", "_random")
            or qn.startswith("Random")
            or slf.__class__.__name__ == "Random"
        ):
            del REGISTERED_CONTRACTS[cfn]

    # (1) no contract-enforcement interception: the code under test has no
    # contracts, intercepting every call costs 8x and forks spuriously
    enforce.EnforcedConditions.trace_call = (
        lambda self, frame, fn, binding_target: None
    )

    counters = {"paths": 0, "queries": 0, "solver_s": 0.0, "unknown": 0}

    orig_init = statespace.StateSpace.__init__

    def counting_init(self, *a, **k):
        counters["paths"] += 1
        return orig_init(self, *a, **k)

    statespace.StateSpace.__init__ = counting_init

    orig_check = z3.Solver.check

    def counting_check(self, *a, **k):
        t0 = time.perf_counter()
        r = orig_check(self, *a, **k)
        counters["solver_s"] += time.perf_counter() - t0
        counters["queries"] += 1
        if str(r) == "unknown":
            counters["unknown"] += 1
        return r

    z3.Solver.check = counting_check
    return counters


_CALL_RE = re.compile(r"when calling ")


def parse_call(message: str, fname: str):
    """Extracts the concrete arguments from a CrossHair counter-example
    message ("... when calling f(1, b=2) (which returns False)")"""
    m = _CALL_RE.search(message)
    if not m:
        return None
    rest = message[m.end():]
    # find balanced parentheses
    start = rest.find("(")
    depth = 0
    end = None
    for i in range(start, len(rest)):
        if rest[i] == "(":
            depth += 1
        elif rest[i] == ")":
            depth -= 1
            if depth == 0:
                end = i
                break
    if end is None:
        return None
    src = rest[: end + 1]
    try:
        call = ast.parse(src, mode="eval").body
        args = [_lit(a) for a in call.args]
        kwargs = {k.arg: _lit(k.value) for k in call.keywords}
        return {"args": args, "kwargs": kwargs}
    except Exception:
        return {"unparsed": src}


def _lit(node):
    try:
        return ast.literal_eval(node)
    except Exception:
        src = ast.unparse(node)
        if src in ("float('nan')", "nan"):
            return "nan"
        if src in ("float('inf')", "inf"):
            return "inf"
        if src in ("-float('inf')", "float('-inf')", "-inf"):
            return "-inf"
        raise


def bind_args(fn, call):
    import inspect

    sig = inspect.signature(fn)

    def fix(v):
        if v == "nan":
            return float("nan")
        if v == "inf":
            return float("inf")
        if v == "-inf":
            return float("-inf")
        return v

    ba = sig.bind(*[fix(a) for a in call["args"]], **{k: fix(v) for k, v in call["kwargs"].items()})
    ba.apply_defaults()
    return dict(ba.arguments)


def run_crosshair(fn, timeout, path_timeout, counters):
    from crosshair.core_and_libs import analyze_function, run_checkables
    from crosshair.options import AnalysisOptionSet

    before = dict(counters)
    opts = AnalysisOptionSet(
        per_condition_timeout=timeout,
        per_path_timeout=path_timeout,
        report_all=True,
        max_uninteresting_iterations=10**9,
    )
    t0 = time.time()
    msgs = []
    for msg in run_checkables(analyze_function(fn, opts)):
        msgs.append((msg.state.name, msg.message, msg.traceback))
    wall = time.time() - t0
    delta = {k: counters[k] - before[k] for k in counters}
    delta["wall_s"] = round(wall, 3)
    delta["solver_s"] = round(delta["solver_s"], 3)
    return msgs, delta


def verdict_of(msgs):
    states = [m[0] for m in msgs]
    for st, text, tb in msgs:
        if st in ("POST_FAIL", "EXEC_ERR", "POST_ERR"):
            return "refuted", st, text, tb
    if states and all(s == "CONFIRMED" for s in states):
        return "confirmed", "CONFIRMED", msgs[0][1], ""
    if not states:
        return "inconclusive", "NO_MESSAGE", "CrossHair produced no message", ""
    for st, text, tb in msgs:
        if st != "CONFIRMED":
            return "inconclusive", st, text, tb
    return "inconclusive", "?", "", ""


def cover_run(mod, fn, kwargs):
    """Runs the harness concretely on the real code (outside CrossHair) and
    collects the repository functions that were entered"""
    from xv import rt

    entered = set()
    prefix = str(rt.REPO / "src/experimaestro")

    def prof(frame, event, arg):
        if event == "call":
            fnm = frame.f_code.co_filename
            if fnm.startswith(prefix) and "/tests/" not in fnm:
                entered.add(
                    fnm[len(prefix) + 1 :] + ":" + getattr(frame.f_code, "co_qualname", frame.f_code.co_name)
                )

    rt.MODE = "cover"
    rt.NOTES = []
    if hasattr(mod, "setup"):
        mod.setup("cover")
    sys.setprofile(prof)
    try:
        r = fn(**kwargs)
        err = None
    except Exception as e:
        r = None
        err = f"{type(e).__name__}: {e}"
    finally:
        sys.setprofile(None)
    return r, err, sorted(entered), list(rt.NOTES)


def run_condition(job, counters):
    from xv import rt

    mod = importlib.import_module(job["module"])
    fn = getattr(mod, job["func"])
    rt.SHARD = job.get("shard") or {}
    mod.SHARD = rt.SHARD
    res = {
        "name": job["name"],
        "module": job["module"],
        "func": job["func"],
        "shard": rt.SHARD,
        "expect": job.get("expect", "hold"),
    }
    t0 = time.time()

    # --- main run
    rt.MODE = "check"
    if hasattr(mod, "setup"):
        mod.setup("check")
    msgs, stats = run_crosshair(fn, job["timeout"], job.get("path_timeout", 60), counters)
    verdict, state, text, tb = verdict_of(msgs)
    if verdict == "confirmed" and stats["unknown"] > 0:
        verdict, state = "inconclusive", "SOLVER_UNKNOWN"
    res.update(verdict=verdict, state=state, message=text[:2000], stats=stats)
    if verdict == "refuted":
        res["traceback"] = (tb or "")[-3000:]
        call = parse_call(text, job["func"])
        if call and "unparsed" not in call:
            try:
                res["witness"] = bind_args(fn, call)
            except Exception as e:
                res["witness_error"] = f"{e}"
        else:
            res["witness_error"] = f"cannot parse: {call}"

    # --- reachability twin + concrete cover run (only when needed)
    if verdict == "confirmed" and job.get("expect", "hold") == "hold":
        rt.MODE = "reach"
        if hasattr(mod, "setup"):
            mod.setup("reach")
        rmsgs, rstats = run_crosshair(
            fn, job.get("reach_timeout", max(30, job["timeout"] / 4)), job.get("path_timeout", 60), counters
        )
        rverdict, rstate, rtext, _ = verdict_of(rmsgs)
        res["reach"] = {"verdict": rverdict, "state": rstate, "stats": rstats}
        if rverdict == "refuted":
            call = parse_call(rtext, job["func"])
            if call and "unparsed" not in call:
                try:
                    kwargs = bind_args(fn, call)
                    r, err, entered, notes = cover_run(mod, fn, kwargs)
                    res["reach"]["witness"] = kwargs
                    res["reach"]["concrete_result"] = bool(r) if err is None else None
                    res["reach"]["concrete_error"] = err
                    res["reach"]["notes"] = notes[:20]
                    res["functions_entered"] = entered
                except Exception as e:
                    res["reach"]["cover_error"] = f"{type(e).__name__}: {e}"
            else:
                res["reach"]["cover_error"] = f"cannot parse {rtext[:200]}"
    res["wall_s"] = round(time.time() - t0, 3)
    return res


def main():
    jobs = json.load(sys.stdin)
    sys.setrecursionlimit(10000)
    counters = _setup_crosshair()
    real_stdout = os.fdopen(os.dup(1), "w")
    # whatever the code under test prints goes to stderr
    os.dup2(2, 1)
    for job in jobs:
        try:
            res = run_condition(job, counters)
        except BaseException as e:  # noqa
            res = {
                "name": job["name"],
                "module": job["module"],
                "func": job["func"],
                "shard": job.get("shard"),
                "expect": job.get("expect", "hold"),
                "verdict": "error",
                "state": "HARNESS_ERROR",
                "message": f"{type(e).__name__}: {e}",
                "traceback": traceback.format_exc()[-3000:],
            }
        real_stdout.write("@@" + json.dumps(res, default=str) + "\n")
        real_stdout.flush()
        if isinstance(res.get("message"), str) and res.get("verdict") == "error" and "KeyboardInterrupt" in res["message"]:
            break


if __name__ == "__main__":
    main()
