"""C04 — no job is launched before everything it depends on has succeeded.

(1) `collect`: dependency collection (updatedependencies / ConfigInformation.
submit) with an upstream task embedded at a symbolic position of the
downstream task's parameter graph; (2) `ordering`: the real scheduler on the
deterministic loop, launch events checked against exits of all transitive
dependencies.
"""

from xv import rt
from xv.rt import fin, pick
from xv.env import sched
from xv.harness import schedlib

SHARD: dict = {}

INFO = {
    "functions": [
        "core/objects.py:updatedependencies", "core/objects.py:ConfigInformation.updatedependencies", "core/objects.py:ConfigInformation.submit",
        "core/objects.py:ConfigInformation.dependency", "scheduler/base.py:Scheduler.aio_submit", "scheduler/base.py:Scheduler.aio_start",
        "scheduler/base.py:Job.dependencychanged", "scheduler/base.py:JobDependency.status", "scheduler/base.py:JobLock._acquire",
        "scheduler/dependencies.py:Dependency.check", "commandline.py:CommandLineJob.aio_run",
    ],
    "bounds": {
        "quick": {"jobs": "<=3 (chain, fork, join, independent)", "schedule_choice_points": 6, "embedding_positions": 14, "embedding_depth": "<=3"},
        "thorough": {"jobs": "<=4 (adds diamond, chain4, join4)", "schedule_choice_points": 5, "embedding_positions": 14},
    },
    "stubs": schedlib.STUBS,
    "symbolic_data": True,
    "assumptions": ["exit codes are unbounded symbolic ints", "the `collect` harness has selectors only (position of the upstream task, number of upstream tasks)"],
    "outside": schedlib.OUTSIDE,
}

POSITIONS = ["one", "lst", "dct", "out", "hold.one", "hold.lst", "hold.dct", "hold.sub.one", "hold.out", "pre.dep", "pre.hold.one", "init.dep", "explicit", "hold.sub.sub.lst"]


def setup(mode):
    schedlib.setup(mode)


def _embed(U, ups, outs, pos):
    """Builds a downstream SDown task with the upstream outputs at `pos`"""
    from experimaestro.scheduler.base import JobDependency

    up, out = ups[0], outs[0]
    kw, pre, init, explicit = {}, [], [], []
    if pos == "one":
        kw["one"] = out
    elif pos == "lst":
        kw["lst"] = list(outs)
    elif pos == "dct":
        kw["dct"] = {f"k{i}": o for i, o in enumerate(outs)}
    elif pos == "hold.one":
        kw["hold"] = U.SHolder(one=out)
    elif pos == "hold.lst":
        kw["hold"] = U.SHolder(lst=list(outs))
    elif pos == "hold.dct":
        kw["hold"] = U.SHolder(dct={"a": out})
    elif pos == "hold.sub.one":
        kw["hold"] = U.SHolder(sub=U.SHolder(one=out))
    elif pos == "hold.sub.sub.lst":
        kw["hold"] = U.SHolder(sub=U.SHolder(sub=U.SHolder(lst=list(outs))))
    elif pos == "pre.dep":
        pre = [U.SPre(dep=out)]
    elif pos == "pre.hold.one":
        pre = [U.SPre(hold=U.SHolder(one=out))]
    elif pos == "init.dep":
        init = [U.SPre(dep=out)]
    elif pos == "explicit":
        explicit = [JobDependency(up.__xpm__.job)]
    d = U.SDown(**kw)
    if pre:
        d.add_pretasks(*pre)
    if explicit:
        d.add_dependencies(*explicit)
    return d, init


def collect(p: int, n: int, x: int) -> bool:
    """Whatever the position of an upstream task in the parameters of a
    downstream task, the downstream job depends on the upstream job.

    post: _
    """
    import xv.defs.sched as U
    from experimaestro import RunMode

    # the job identifiers are real sha256 digests here: the hashed values must
    # be concrete (selectors only: symbolic_data is false for this harness)
    x = 7 + pick(x, 3)
    sched.reset(rt.scratch_dir())
    pos = POSITIONS[pick(p, len(POSITIONS))]
    nup = pick(n, 2) + 1
    if pos in ("out", "hold.out"):
        # upstream = task whose output is another configuration
        ups = [U.SJOut(x=x, out=U.SOut(w=1))]
        outs = [ups[0].submit(run_mode=RunMode.DRY_RUN)]
        if pos == "out":
            d, init = U.SDown(out=outs[0]), []
        else:
            d, init = U.SDown(hold=U.SHolder(out=outs[0])), []
    else:
        ups = [U.SJ(x=x + i) for i in range(nup)]
        outs = [u.submit(run_mode=RunMode.DRY_RUN) for u in ups]
        d, init = _embed(U, ups, outs, pos)
    d.submit(run_mode=RunMode.DRY_RUN, init_tasks=init)
    origins = [dep.origin for dep in d.__xpm__.job.dependencies]
    need = ups if pos in ("lst", "dct", "hold.lst", "hold.sub.sub.lst") else ups[:1]
    ok = True
    for u in need:
        if not any(o is u.__xpm__.job for o in origins):
            rt.note("FAIL: missing dependency for position", pos)
            ok = False
    rt.note("position", pos, "dependencies", len(origins))
    rt.scratch_cleanup()
    return fin(ok)


def ordering(
    total: int, r0: int, r1: int, r2: int, r3: int,
    c0: int, c1: int, c2: int, c3: int,
    rev: bool,
    s0: int, s1: int, s2: int, s3: int, s4: int, s5: int, s6: int, s7: int, s8: int, s9: int,
) -> bool:
    """No job process is launched before every job it (transitively) depends
    on has exited with status 0.

    post: _
    """
    sc = schedlib.drive(SHARD, total, [r0, r1, r2, r3], [c0, c1, c2, c3], rev, [s0, s1, s2, s3, s4, s5, s6, s7, s8, s9])
    if sc is None:
        return True
    ok = schedlib.ordering_ok(sc)
    # sanity (not the property): the scenario made progress
    if sc.hung:
        ok = False
    sc.finish()
    rt.scratch_cleanup()
    return fin(ok)


def conditions(tier):
    conds = [{"name": "collect", "func": "collect", "shard": {}, "timeout": 300}]
    K = 4 if tier == "quick" else 5
    tmo = 600 if tier == "quick" else 3000
    shapes = ["chain2", "chain3", "fork3", "join3", "mixed3"] if tier == "quick" else ["chain2", "chain3", "fork3", "join3", "mixed3", "diamond4", "chain4", "join4", "two2"]
    for sh in shapes:
        conds.append({"name": f"ordering/{sh}", "func": "ordering", "shard": {"shape": sh, "K": K}, "timeout": tmo})
    for sh, mask in (("chain2", [1, 1]), ("join3", [1, 1, 0])):
        conds.append({"name": f"ordering-token/{sh}", "func": "ordering", "shard": {"shape": sh, "K": K, "token": mask}, "timeout": tmo})
    heavy = ("indep2", "join3", "indep3", "mixed3", "diamond4", "fork3", "chain4", "join4", "two2")
    out = []
    for c in conds:
        if c["shard"].get("shape") in heavy:
            out.extend(schedlib.with_prefixes(c, 2))
        else:
            out.append(c)
    return out
