"""C18 — a launcher request only matches hosts that satisfy it.

Real code under symbolic execution: launcherfinder/specs.py
(HostSimpleRequirement.match/_add/__and__/__mul__, CPUSpecification,
CudaSpecification.match, RequirementUnion.match, cpu/cuda_gpu/duration),
launcherfinder/parser.py (parse + Visitor, on concrete text) and
LauncherRegistry.find.
"""

from xv import rt
from xv.rt import fin, pick

SHARD: dict = {}

INFO = {
    "functions": [
        "launcherfinder/specs.py:HostSimpleRequirement.match",
        "launcherfinder/specs.py:HostSimpleRequirement._add",
        "launcherfinder/specs.py:HostSimpleRequirement.__and__",
        "launcherfinder/specs.py:HostSimpleRequirement.__mul__",
        "launcherfinder/specs.py:CPUSpecification.__lt__",
        "launcherfinder/specs.py:CudaSpecification.match",
        "launcherfinder/specs.py:CudaSpecification.__lt__",
        "launcherfinder/specs.py:RequirementUnion.match",
        "launcherfinder/specs.py:HostRequirement.__or__",
        "launcherfinder/specs.py:cpu/cuda_gpu/duration",
        "launcherfinder/parser.py:parse, Visitor.* (concrete text, symbolic host)",
        "launcherfinder/registry.py:LauncherRegistry.find",
    ],
    "bounds": {
        "quick": {"host_gpus": "0..3", "request_gpus": "0..3 (sum over & terms)", "and_terms": "<=3", "union_alternatives": "<=3", "multiplier": "1..3", "texts": "template menu x number menu, see conditions"},
        "thorough": {"host_gpus": "0..4", "request_gpus": "0..4", "and_terms": "<=3", "union_alternatives": "<=4", "multiplier": "1..4"},
    },
    "stubs": [
        "humanfriendly.parse_size / parse_timespan are not called with symbolic text: programmatic requests are built like specs.cpu()/cuda_gpu()/duration() do but with integer fields assigned directly (symbolic ints); textual requests are concrete strings",
        "LauncherRegistry.__init__ (YAML/entry-point loading) skipped: instance created with __new__, find_launcher_fn is a recording function",
    ],
    "symbolic_data": True,
    "assumptions": [
        "all sizes, core counts, durations, priorities are ints >= 0 (unbounded above)",
        "numbers of GPUs (list lengths), of &-terms and of |-alternatives are enumerated per shard",
        "in the text/programmatic equivalence the numbers appearing in the text come from a menu (the parser only sees concrete text); the host is symbolic",
    ],
    "outside": ["mem_per_cpu / cpu_per_gpu (unused by match)", "tags filtering inside user-provided find_launcher functions", "YAML configuration loading"],
}


def setup(mode):
    pass


def _nonneg(*vs):
    for v in vs:
        if v < 0:
            return False
    return True


def _host(hn, hg, hmin, hmem, hcores, hdur, hmingpu, hprio):
    from experimaestro.launcherfinder.specs import HostSpecification, CPUSpecification, CudaSpecification

    return HostSpecification(
        cuda=[CudaSpecification(hg[i], min_memory=hmin[i]) for i in range(hn)],
        cpu=CPUSpecification(hmem, hcores),
        priority=hprio,
        max_duration=hdur,
        min_gpu=hmingpu,
    )


def _cpu_req(mem, cores):
    from experimaestro.launcherfinder import specs

    r = specs.cpu(cores=cores)
    r.cpu.memory = mem
    return r


def _gpu_req(mem):
    from experimaestro.launcherfinder import specs

    r = specs.cuda_gpu()
    r.cuda_gpus[0].memory = mem
    return r


def _snapshot(r):
    """Deep, by-value snapshot of a simple requirement"""
    return (
        r.cpu.memory,
        r.cpu.cores,
        r.cpu.mem_per_cpu,
        r.cpu.cpu_per_gpu,
        r.duration,
        [(g.memory, g.model, g.min_memory) for g in r.cuda_gpus],
    )


def _assignable(host_mems, req_mems):
    """Oracle: a one-to-one assignment of requested GPUs to host GPUs with
    enough memory exists (greedy on sorted lists, both <= 4 long)"""
    if len(host_mems) < len(req_mems):
        return False
    hs = sorted(host_mems, reverse=True)
    rs = sorted(req_mems, reverse=True)
    for i in range(len(rs)):
        if hs[i] < rs[i]:
            return False
    return True


# ---------------------------------------------------------------- soundness


def match_sound(
    hg0: int, hg1: int, hg2: int, hg3: int,
    hm0: int, hm1: int, hm2: int, hm3: int,
    hmem: int, hcores: int, hdur: int, hmingpu: int, hprio: int,
    rg0: int, rg1: int, rg2: int, rg3: int,
    rmem: int, rcores: int, rdur: int,
    mult: int,
) -> bool:
    """A request built with the public combinators (cpu & cuda_gpu [* n] &
    duration) matches a host only if the host satisfies it.

    post: _
    """
    from experimaestro.launcherfinder import specs

    hn, rn, use_mult = SHARD["hn"], SHARD["rn"], SHARD.get("mult", 0)
    hg, hm, rg = [hg0, hg1, hg2, hg3], [hm0, hm1, hm2, hm3], [rg0, rg1, rg2, rg3]
    if not _nonneg(hmem, hcores, hdur, hmingpu, hprio, rmem, rcores, rdur):
        return True
    if not _nonneg(*hg[:hn], *hm[:hn], *rg[:rn]):
        return True
    host = _host(hn, hg, hm, hmem, hcores, hdur, hmingpu, hprio)

    req = _cpu_req(rmem, rcores) & specs.duration(rdur)
    want = []
    if use_mult:
        # one GPU request multiplied by `mult` (1..use_mult)
        k = pick(mult - 1, use_mult) + 1
        if rn >= 1:
            req = req & (_gpu_req(rg[0]) * k)
            want = [rg[0]] * k
    else:
        for i in range(rn):
            req = req & _gpu_req(rg[i])
            want.append(rg[i])

    m = req.match(host)
    if m is None:
        return fin(True)
    ok = (
        _assignable(hg[:hn], want)
        and hmem >= rmem
        and hcores >= rcores
        and (hdur == 0 or rdur <= hdur)
        and m.requirement is req
    )
    rt.note("match on", host, "for", req)
    return fin(ok)


# ---------------------------------------------------------------- purity + meaning of the combinators


def combinators(
    am: int, ac: int, ad: int, ag0: int, ag1: int,
    bm: int, bc: int, bd: int, bg0: int, bg1: int,
    n: int,
) -> bool:
    """`a & b`, `a * n`, `a | b` leave their operands unchanged and mean what
    they say (max of cpu/duration, union of GPUs, n copies of the GPUs).

    post: _
    """
    from experimaestro.launcherfinder import specs

    an, bn, op = SHARD["an"], SHARD["bn"], SHARD["op"]
    if not _nonneg(am, ac, ad, ag0, ag1, bm, bc, bd, bg0, bg1):
        return True

    def build(m, c, d, gs):
        # Built only from leaf constructors so that `&` under test is not
        # needed to build the operands
        r = specs.HostSimpleRequirement()
        r.cpu = specs.CPUSpecification(m, c)
        r.duration = d
        for g in gs:
            r.cuda_gpus.append(specs.CudaSpecification(g))
        r.cuda_gpus.sort()
        return r

    a = build(am, ac, ad, [ag0, ag1][:an])
    b = build(bm, bc, bd, [bg0, bg1][:bn])
    sa, sb = _snapshot(a), _snapshot(b)

    if op == "and":
        r = a & b
        meaning = (
            r.cpu.memory == max(am, bm)
            and r.cpu.cores == max(ac, bc)
            and r.duration == max(ad, bd)
            and sorted(g.memory for g in r.cuda_gpus) == sorted([ag0, ag1][:an] + [bg0, bg1][:bn])
            and r is not a
        )
        # a second combination must not see the first one
        r2 = a & build(0, 0, 0, [])
        meaning = meaning and _snapshot(r2) == sa
    elif op == "mul":
        k = pick(n - 1, SHARD["nmax"]) + 1
        r = a * k
        meaning = (
            r.cpu.memory == am
            and r.cpu.cores == ac
            and r.duration == ad
            and sorted(g.memory for g in r.cuda_gpus) == sorted([ag0, ag1][:an] * k)
        )
    else:
        r = a | b
        meaning = r.requirements[0] is a and r.requirements[1] is b and len(r.requirements) == 2
    pure = _snapshot(a) == sa and _snapshot(b) == sb
    rt.note("a", sa, "b", sb, "after", _snapshot(a), _snapshot(b))
    return fin(pure and meaning)


# ---------------------------------------------------------------- union: first matching alternative, in order


def union_order(
    hg0: int, hmem: int, hcores: int, hdur: int,
    m0: int, x0: int, g0: int,
    m1: int, x1: int, g1: int,
    m2: int, x2: int, g2: int,
) -> bool:
    """RequirementUnion.match returns the first alternative (in the order
    given) that matches the host, and None iff none matches.

    post: _
    """
    hn, k, gmask, second = SHARD["hn"], SHARD["k"], SHARD["gmask"], SHARD["second"]
    ms, xs, gs = [m0, m1, m2], [x0, x1, x2], [g0, g1, g2]
    if not _nonneg(hg0, hmem, hcores, hdur, *ms[:k], *xs[:k], *gs[:k]):
        return True
    # The host priority is concrete here: RequirementUnion.match compares the
    # score with float("-inf"), and CrossHair (rightly) refuses to confirm
    # paths on which a symbolic int was approximated by a real-based float
    host = _host(hn, [hg0], [0], hmem, hcores, hdur, 0, SHARD.get("prio", 0))
    from experimaestro.launcherfinder import specs

    alts = []
    for i in range(k):
        # each alternative: symbolic cpu memory + a second symbolic dimension
        # (cores or duration, per shard) + optionally one GPU
        if second == "cores":
            r = _cpu_req(ms[i], xs[i])
        else:
            r = _cpu_req(ms[i], 0) & specs.duration(xs[i])
        if gmask[i]:
            r = r & _gpu_req(gs[i])
        alts.append(r)
    u = alts[0]
    for r in alts[1:]:
        u = u | r
    res = u.match(host)
    first = None
    for r in alts:
        if r.match(host) is not None:
            first = r
            break
    if first is None:
        return fin(res is None)
    if res is None:
        return fin(False)
    # `a | b | c` nests unions: resolve down to the simple requirement
    got = res.requirement
    while isinstance(got, specs.RequirementUnion):
        got = got.match(host).requirement
    return fin(got is first)


# ---------------------------------------------------------------- registry.find: alternatives tried in the order given


class _L:
    pass


def find_order(a0: bool, a1: bool, a2: bool, a3: bool) -> bool:
    """LauncherRegistry.find tries the alternatives of all specifications
    (textual ones expanded in place) in the order given and returns the first
    launcher found.

    post: _
    """
    from experimaestro.launcherfinder.registry import LauncherRegistry
    from experimaestro.launcherfinder import specs
    from experimaestro.launchers import Launcher
    from crosshair.tracers import NoTracing

    accept = [a0, a1, a2, a3]
    layout = SHARD["layout"]  # list of "text:<n alternatives>" or "prog"
    reg = object.__new__(LauncherRegistry)
    calls = []
    launchers = {}

    class FakeLauncher(Launcher):
        def __init__(self, i):
            self.i = i

        def scriptbuilder(self):
            raise NotImplementedError()

    def find_launcher_fn(spec, tags):
        i = len(calls)
        calls.append(spec)
        if accept[i]:
            launchers[i] = FakeLauncher(i)
            return launchers[i]
        return None

    reg.find_launcher_fn = find_launcher_fn
    inputs, expected = [], []
    j = 0
    for item in layout:
        if item == "prog":
            r = _cpu_req(1000 + j, 1)
            inputs.append(r)
            expected.append(("obj", r))
            j += 1
        else:
            n = int(item.split(":")[1])
            inputs.append(" | ".join(f"cpu(mem={1000 + j + t}M)" for t in range(n)))
            for t in range(n):
                expected.append(("mem", (1000 + j + t) * 1000 * 1000))
            j += n
    if rt.concrete():
        got = reg.find(*inputs)
    else:
        # the parser only sees concrete text; tracing it is pure overhead
        got = reg.find(*inputs)
    # oracle
    first = None
    for i in range(len(expected)):
        if accept[i]:
            first = i
            break
    ncalls = len(expected) if first is None else first + 1
    ok = len(calls) == ncalls
    for i in range(min(len(calls), len(expected))):
        kind, v = expected[i]
        if kind == "obj":
            ok = ok and calls[i] is v
        else:
            ok = ok and calls[i].cpu.memory == v
    if first is None:
        ok = ok and got is None
    else:
        ok = ok and got is launchers.get(first)
    return fin(ok)


# ---------------------------------------------------------------- text == programmatic

#: (text, python expression) pairs; {A}.. are replaced by numbers of the shard
TEMPLATES = [
    ("cpu(mem={A}M, cores={B})", "cpu(mem='{A}M', cores={B})"),
    ("cpu(cores={B},mem={A}G)", "cpu(mem='{A}G', cores={B})"),
    ("cpu(mem={A}G)", "cpu(mem='{A}G')"),
    ("cpu(cores={B})", "cpu(cores={B})"),
    ("cuda(mem={A}G)", "cuda_gpu(mem='{A}G')"),
    ("cuda(mem={A}G) * {C}", "cuda_gpu(mem='{A}G') * {C}"),
    ("cuda(mem={A}M)*{C}", "cuda_gpu(mem='{A}M') * {C}"),
    ("duration={D}h", "duration('{D}h')"),
    ("duration={D} hours", "duration('{D} hours')"),
    ("duration={D} d", "duration('{D} d')"),
    ("duration={D}days", "duration('{D} days')"),
    ("duration={D} d & cuda(mem={A}G) * {C} & cpu(mem={B}M, cores={C})", "duration('{D} d') & cuda_gpu(mem='{A}G') * {C} & cpu(mem='{B}M', cores={C})"),
    ("cuda(mem={A}G)*{C}&cpu(mem={B}G)", "cuda_gpu(mem='{A}G') * {C} & cpu(mem='{B}G')"),
    ("  cpu( mem = {A}G , cores = {B} )  &  duration = {D} h  ", "cpu(mem='{A}G', cores={B}) & duration('{D} h')"),
    ("cpu(mem={A}G)\n&\tcuda(mem={B}G)", "cpu(mem='{A}G') & cuda_gpu(mem='{B}G')"),
    ("cuda(mem={A}G) & cuda(mem={B}G)", "cuda_gpu(mem='{A}G') & cuda_gpu(mem='{B}G')"),
    ("cuda(mem={A}G) * {C} | cuda(mem={B}G)", "[cuda_gpu(mem='{A}G') * {C}, cuda_gpu(mem='{B}G')]"),
    ("cpu(mem={A}G) & duration={D}h | cpu(mem={B}G) | cuda(mem={A}G)", "[cpu(mem='{A}G') & duration('{D}h'), cpu(mem='{B}G'), cuda_gpu(mem='{A}G')]"),
    ("cuda(mem={A}G) & cpu(cores={B}) | duration={D}d & cuda(mem={B}G)*{C}", "[cuda_gpu(mem='{A}G') & cpu(cores={B}), duration('{D}d') & cuda_gpu(mem='{B}G') * {C}]"),
]

NUMBERS = [
    {"A": 4, "B": 2, "C": 2, "D": 4},
    {"A": 24, "B": 400, "C": 1, "D": 10},
    {"A": 1, "B": 16, "C": 3, "D": 1},
    {"A": 0, "B": 1, "C": 2, "D": 0},
]


def text_equiv(
    hg0: int, hg1: int, hg2: int, hm0: int, hm1: int, hm2: int,
    hmem: int, hcores: int, hdur: int, hmingpu: int, hprio: int, hn: int,
) -> bool:
    """parse(text) is, alternative by alternative and in the same order,
    field-wise equal to the equivalent programmatic request, and matches
    exactly the same (symbolic) hosts.

    post: _
    """
    from experimaestro.launcherfinder import specs
    from experimaestro.launcherfinder.parser import parse

    text_t, py_t = TEMPLATES[SHARD["template"]]
    nums = NUMBERS[SHARD["numbers"]]
    text, py = text_t.format(**nums), py_t.format(**nums)
    if not _nonneg(hg0, hg1, hg2, hm0, hm1, hm2, hmem, hcores, hdur, hmingpu, hprio):
        return True
    n = pick(hn, 4)
    host = _host(n, [hg0, hg1, hg2], [hm0, hm1, hm2], hmem, hcores, hdur, hmingpu, hprio)

    def build():
        parsed = parse(text)
        prog = eval(py, {"cpu": specs.cpu, "cuda_gpu": specs.cuda_gpu, "duration": specs.duration})
        return parsed, prog

    if rt.concrete():
        parsed, prog = build()
    else:
        from crosshair.tracers import NoTracing

        with NoTracing():
            parsed, prog = build()
    if not isinstance(prog, list):
        prog = [prog]
    if len(parsed) != len(prog):
        return fin(False)
    ok = True
    for p, q in zip(parsed, prog):
        ok = ok and _snapshot(p) == _snapshot(q)
        ok = ok and ((p.match(host) is None) == (q.match(host) is None))
    rt.note("text", repr(text), "==", py)
    return fin(ok)


# ---------------------------------------------------------------- conditions


def conditions(tier):
    conds = []
    gmax = 3 if tier == "quick" else 4
    for hn in range(gmax + 1):
        for rn in range(gmax + 1):
            if tier == "quick" and hn + rn > 5:
                continue
            conds.append({"name": f"match_sound/h{hn}r{rn}", "func": "match_sound", "shard": {"hn": hn, "rn": rn}, "timeout": 240 if tier == "quick" else (3000 if hn + rn >= 7 else 900)})
        conds.append({"name": f"match_sound/h{hn}mult", "func": "match_sound", "shard": {"hn": hn, "rn": 1, "mult": gmax}, "timeout": 240 if tier == "quick" else 900})
    for an in range(3):
        for bn in range(3):
            conds.append({"name": f"combinators/and-a{an}b{bn}", "func": "combinators", "shard": {"an": an, "bn": bn, "op": "and"}, "timeout": 240})
        conds.append({"name": f"combinators/mul-a{an}", "func": "combinators", "shard": {"an": an, "bn": 0, "op": "mul", "nmax": gmax}, "timeout": 240})
    conds.append({"name": "combinators/or", "func": "combinators", "shard": {"an": 1, "bn": 1, "op": "or"}, "timeout": 120})
    masks = [[0, 0, 0], [1, 0, 0], [0, 1, 0], [1, 1, 0], [0, 0, 1], [1, 1, 1], [1, 0, 1]]
    for hn in (0, 1):
        for k in (2, 3):
            for gm in masks:
                if k == 2 and gm[2]:
                    continue
                for second in ("cores", "duration"):
                    if tier == "quick" and k == 3 and second == "duration" and sum(gm) not in (0, 3):
                        continue
                    conds.append({"name": f"union_order/h{hn}k{k}g{''.join(map(str, gm))}{second[0]}", "func": "union_order", "shard": {"hn": hn, "k": k, "gmask": gm, "second": second, "prio": 3 * (len(conds) % 3)}, "timeout": 300})
    for layout in (["prog", "prog", "prog"], ["text:2", "prog"], ["prog", "text:3"], ["text:2", "text:2"], ["text:1", "prog", "text:2"], ["text:4"]):
        conds.append({"name": "find_order/" + "+".join(layout).replace(":", ""), "func": "find_order", "shard": {"layout": layout}, "timeout": 120})
    for ti in range(len(TEMPLATES)):
        for ni in range(len(NUMBERS)):
            if tier == "quick" and ni >= 2 and ti % 3 != ni - 2:
                continue
            conds.append({"name": f"text_equiv/t{ti}n{ni}", "func": "text_equiv", "shard": {"template": ti, "numbers": ni}, "timeout": 240, "weight": 60})
    return conds
