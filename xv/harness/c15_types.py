"""C15 — parameters only ever hold values of their declared type; submit fails fast."""

from pathlib import Path

from xv import rt
from xv.rt import fin, pick
from xv.env import hashing, sched

SHARD: dict = {}

INFO = {
    "functions": [
        "core/types.py:Type.fromType", "core/types.py:IntType/StrType/FloatType/BoolType/PathType/EnumType/ArrayType/DictType/ObjectType.validate",
        "core/arguments.py:Argument.validate / ArgumentOptions.create", "core/objects.py:ConfigInformation.set", "core/objects.py:TypeConfig.__init__",
        "core/objects.py:ConfigInformation.validate / validate_and_seal / submit", "scheduler/base.py:Scheduler.submit/aio_registerJob (registry inspected)",
    ],
    "bounds": {
        "quick": {"type_expressions": "7 base types x {T, List[T], Dict[str,T], List[List[T]], List[Dict[str,T]], Dict[str,List[T]], Dict[str,Dict[str,T]]} x {required, Optional}", "candidate": "conforming, or exactly one constructor replaced at a symbolic depth/position by one of 7 other kinds (incl. None)", "container_sizes": "1..2 elements"},
        "thorough": {"container_sizes": "0..2"},
    },
    "stubs": ["inspect.stack -> constant", "floats from a concrete menu (math.modf realises symbolic floats)", "scheduler environment of xv/env/sched.py for the fail-fast clause"],
    "symbolic_data": True,
    "assumptions": ["Union types other than Optional[X] at top level are outside (List[Optional[X]] cannot even be declared with the pinned code)", "bool parameters accept any value through bool(value): the stored value is a bool, which is what the property requires", "ints symbolic, strings one symbolic printable char"],
    "outside": ["GenericType / Any parameters", "checkers (Choices)", "python -O (EnumType uses assert)"],
}

KINDS = ["int", "float", "fracfloat", "str", "bool", "none", "list", "dict", "leaf", "enum", "path"]


def known(fid):
    import os

    if SHARD.get("ignore_known"):
        return False
    return fid in os.environ.get("XV_OPEN_FINDINGS", "").split(",")


def setup(mode):
    import experimaestro.core.objects as O

    O.inspect = hashing.FakeInspect()
    O.cprint = lambda *a, **k: None
    hashing.install("replay")


def _leafvalue(kind, x, c):
    """A value of the given kind built from the symbolic payloads"""
    import xv.defs.ident as U

    if kind == "int":
        return x
    if kind == "float":
        return [2.0, -3.0, 0.0][pick(x, 3)]
    if kind == "fracfloat":
        return [2.5, -0.25][pick(x, 2)]
    if kind == "str":
        return chr(c)
    if kind == "bool":
        return x == 0
    if kind == "none":
        return None
    if kind == "list":
        return [x]
    if kind == "dict":
        return {"k": x}
    if kind == "leaf":
        return U.Leaf(i=x)
    if kind == "enum":
        return [U.Color.RED, U.Color.BLUE][pick(x, 2)]
    if kind == "path":
        return Path("/p/x")
    raise KeyError(kind)


NATURAL = {"int": "int", "float": "float", "str": "str", "bool": "bool", "path": "path", "enum": "enum", "leaf": "leaf"}


def _conforms(t, v):
    """Reference: does value v conform to type expression t (documented rules)?"""
    import xv.defs.ident as U
    from experimaestro.core.objects import Config

    k = t[0]
    if k == "int":
        return (isinstance(v, int)) or (isinstance(v, float) and v == int(v))
    if k == "float":
        return isinstance(v, (int, float))
    if k == "str":
        return isinstance(v, str)
    if k == "bool":
        return True
    if k == "path":
        return isinstance(v, (str, Path))
    if k == "enum":
        return isinstance(v, U.Color)
    if k == "leaf":
        return isinstance(v, Config) and isinstance(v, U.Leaf)
    if k == "list":
        return isinstance(v, list) and all(_conforms(t[1], e) for e in v)
    if k == "dict":
        return isinstance(v, dict) and all(isinstance(kk, str) and _conforms(t[1], e) for kk, e in v.items())
    raise KeyError(k)


def _coerce(t, v):
    k = t[0]
    if k == "int":
        return int(v) if isinstance(v, float) else v
    if k == "float":
        return float(v)
    if k == "bool":
        return bool(v)
    if k == "path":
        return Path(v)
    if k == "list":
        return [_coerce(t[1], e) for e in v]
    if k == "dict":
        return {kk: _coerce(t[1], e) for kk, e in v.items()}
    return v


def _eq(a, b):
    """Deep equality written in Python (the C-level dict/list comparison
    would realise symbolic members)"""
    if isinstance(a, list):
        if not isinstance(b, list) or len(a) != len(b):
            return False
        for x, y in zip(a, b):
            if not _eq(x, y):
                return False
        return True
    if isinstance(a, dict):
        if not isinstance(b, dict) or len(a) != len(b):
            return False
        for k in a:
            if k not in b or not _eq(a[k], b[k]):
                return False
        return True
    return type(a) is type(b) and a == b


def _typed(t, v):
    """The stored value has the declared type at every depth"""
    import xv.defs.ident as U

    k = t[0]
    if k == "int":
        return isinstance(v, int)
    if k == "float":
        return isinstance(v, float)
    if k == "str":
        return isinstance(v, str)
    if k == "bool":
        return isinstance(v, bool)
    if k == "path":
        return isinstance(v, Path)
    if k == "enum":
        return isinstance(v, U.Color)
    if k == "leaf":
        return isinstance(v, U.Leaf)
    if k == "list":
        return isinstance(v, list) and all(_typed(t[1], e) for e in v)
    if k == "dict":
        return isinstance(v, dict) and all(isinstance(kk, str) and _typed(t[1], e) for kk, e in v.items())
    raise KeyError(k)


def _build(t, x, c, depth, mutate_depth, mkind, two):
    """Conforming value of type t, with the constructor at `mutate_depth`
    replaced by a value of kind `mkind` (None = no replacement)"""
    if mkind is not None and depth == mutate_depth:
        # the replaced constructor gets concrete payloads: rejected values are
        # interpolated into error messages, which would make the solver
        # enumerate them (its variant is still a symbolic selector)
        return _leafvalue(mkind, 3 if mkind not in ("float", "fracfloat", "enum") else x, 113)
    k = t[0]
    if k == "list":
        inner = _build(t[1], x, c, depth + 1, mutate_depth, mkind, two)
        if two:
            return [_build(t[1], x, c, depth + 1, -1, None, two), inner]
        return [inner]
    if k == "dict":
        inner = _build(t[1], x, c, depth + 1, mutate_depth, mkind, two)
        if two:
            return {"a": _build(t[1], x, c, depth + 1, -1, None, two), "b": inner}
        return {"a": inner}
    return _leafvalue(NATURAL[k], x, c)


def assign(x: int, c: int, md: int, mk: int, two: bool, ctor: bool) -> bool:
    """Assigning a value either stores the coerced value, of the declared
    type at every depth, or raises and stores nothing.

    post: _
    """
    import xv.defs.types_u as T

    base, shape, opt = SHARD["base"], SHARD["shape"], SHARD["opt"]
    if not (-(2**63) <= x < 2**63) or not (32 <= c < 127):
        return True
    t = T.texpr(base, shape)
    cls = T.CLASSES[(base, shape, opt)]
    depth_n = len(T.SHAPES[shape]) + 1
    mutate = pick(md, depth_n + 1)  # depth_n = no mutation
    mkind = None if mutate == depth_n else KINDS[pick(mk, len(KINDS))]
    if mkind == "none" and base == "leaf" and mutate > 0 and known("C15-none-in-config-container"):
        return True  # known finding, reported separately (its witness is replayed)
    value = _build(t, x, c, 0, mutate, mkind, two)
    if value is None:
        should_accept = opt
    else:
        should_accept = _conforms(t, value)
    cfg = None
    raised = False
    try:
        if ctor:
            cfg = cls(v=value)
        else:
            cfg = cls()
            cfg.v = value
    except (TypeError, ValueError, AttributeError, AssertionError):
        raised = True
    if rt.concrete():
        rt.note("type", t, "value", repr(value), "accepted" if not raised else "rejected", "expected", "accept" if should_accept else "reject")
    if raised:
        if should_accept:
            return fin(False)
        # nothing stored
        if cfg is not None and cfg.__xpm__.values.get("v") is not None:
            return fin(False)
        return fin(True)
    if not should_accept:
        return fin(False)
    stored = cfg.v
    if value is None:
        return fin(stored is None)
    ok = _typed(t, stored)
    want = _coerce(t, value)
    if base == "leaf":
        ok = ok and _typed(t, want)
    else:
        ok = ok and _eq(stored, want)
    return fin(ok)


def failfast(pos: int, x: int) -> bool:
    """A task with a required parameter missing anywhere in its graph is
    rejected at submission, before any job is registered.

    post: _
    """
    import experimaestro.scheduler.base as SB
    import xv.defs.ident as U

    POS = ["none", "leaf", "node.child", "node.child.i", "leafs[0]", "leafs[1]", "d[a]", "bag.xs[0]", "node.other", "pre", "init"]
    p = POS[pick(pos, len(POS))]
    x = 5 + pick(x, 2)
    root = rt.scratch_dir()
    w = sched.reset(root)
    launcher = sched.make_launcher(root / "conn")
    xp = SB.experiment(root / "ws", "x", launcher=launcher)
    xp.__enter__()
    bad = U.Leaf()  # required `i` missing
    good = lambda: U.Leaf(i=x)  # noqa: E731
    kw = {"x": x}
    kw["leaf"] = bad if p == "leaf" else good()
    if p == "node.child":
        kw["node"] = U.Node()
    elif p == "node.child.i":
        kw["node"] = U.Node(child=bad)
    elif p == "node.other":
        kw["node"] = U.Node(child=good(), other=bad)
    else:
        kw["node"] = U.Node(child=good())
    kw["leafs"] = [bad if p == "leafs[0]" else good(), bad if p == "leafs[1]" else good()]
    kw["d"] = {"a": bad if p == "d[a]" else good()}
    kw["bag"] = U.Bag(xs=[bad if p == "bag.xs[0]" else good()])
    t = U.GenTask(**kw)
    if p == "pre":
        t.add_pretasks(U.Pre())
    init = [U.Pre()] if p == "init" else []
    raised = False
    try:
        t.submit(init_tasks=init)
    except sched.WouldBlock:
        pass
    except Exception as e:
        # (a value missing inside a list/dict member is not seen by validate():
        # the submission is then rejected by a KeyError raised while the
        # identifier is computed - still before anything is registered)
        raised = True
        rt.note("rejected by", type(e).__name__)
    njobs = len(xp.scheduler.jobs)
    jobsdir = root / "ws" / "jobs"
    on_disk = jobsdir.is_dir() and any(jobsdir.iterdir())
    rt.note("missing at", p, "raised", raised, "registered jobs", njobs)
    if p == "none":
        ok = (not raised) and njobs == 1
    else:
        ok = raised and njobs == 0 and xp.unfinishedJobs == 0 and not on_disk and len(w.procs) == 0
    rt.scratch_cleanup()
    return fin(ok)


def conditions(tier):
    import xv.defs.types_u as T

    conds = []
    for b in T.BASES:
        for s in T.SHAPES:
            for o in (False, True):
                if tier == "quick" and o and s not in ("b", "Lb", "DLb"):
                    continue
                conds.append({"name": f"assign/{b}-{s}-{'opt' if o else 'req'}", "func": "assign", "shard": {"base": b, "shape": s, "opt": o}, "timeout": 300 if tier == "quick" else 1200})
    conds.append({"name": "failfast", "func": "failfast", "shard": {}, "timeout": 300})
    return conds
