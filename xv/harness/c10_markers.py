"""C10 — job-directory markers stay truthful whenever the job process dies.

Real code under symbolic execution: run.py TaskRunner.__init__/run/cleanup/
handle_error and rmfile, instrumented (from the current source, at each run)
with a `__tick__` call before every statement: the instant of death is a
symbolic tick number, the kind of death (none, SIGKILL, SIGTERM, SIGINT) and
the outcome of the task body are symbolic selectors.
"""

import ast
import hashlib
import types
from pathlib import Path

from xv import rt
from xv.rt import fin, pick

SHARD: dict = {}

RUN_PY = rt.REPO / "src/experimaestro/run.py"

INFO = {
    "functions": ["run.py:TaskRunner.__init__", "run.py:TaskRunner.run", "run.py:TaskRunner.cleanup", "run.py:TaskRunner.handle_error", "run.py:rmfile", "scriptbuilder.py:PythonScriptBuilder.write (concrete: lock file listed)"],
    "bounds": {
        "quick": {"launches": "2 (one launch + one relaunch), each with its own symbolic death tick", "death_points": "before every executed statement of TaskRunner (and two points inside the task body)", "signals": "none / KILL / TERM / INT", "body_outcomes": "return / raise / sys.exit(symbolic code)"},
        "thorough": {"launches": "same inductive step (the thorough tier adds nothing for this property)"},
    },
    "stubs": [
        "fasteners.InterProcessLock -> lock table path -> owner pid; a pid's locks are released when the process ends (what the OS does), so the checked statement is 'a relaunch can obtain the lock'",
        "signal.signal -> recorded handlers; SIGKILL (and SIGTERM with the default disposition) = Killed(BaseException) raised at the tick, no atexit; SIGTERM/SIGINT with a Python handler = handler invoked at the tick; SIGINT with the default disposition = KeyboardInterrupt at the tick",
        "atexit -> model list run at interpreter exit (normal return, SystemExit, uncaught exception, KeyboardInterrupt), not on Killed",
        "os.chdir / os.register_at_fork / os.getpid, report_eoj, logger -> no-ops; run() (task body) -> stub with a symbolic outcome",
        "the scheduler side writes the .pid file at a symbolic tick no later than the first statement of TaskRunner.run",
    ],
    "symbolic_data": True,
    "assumptions": [
        "death happens at statement boundaries of the task runner (and at two points of the body)",
        "the .pid file is written by the scheduler before the runner reaches its end (a process that ends before its parent has written the pid file is outside)",
        "body sys.exit(0) counts as the body having completed",
    ],
    "outside": ["death inside a single statement (e.g. between creating and writing .failed)", "os.fork children", "the preamble of the generated script", "real fcntl locks and real signals"],
}


class Killed(BaseException):
    pass


class ModelKeyboardInterrupt(BaseException):
    """CPython's default SIGINT handler raises KeyboardInterrupt (a
    BaseException that `except Exception` does not catch); a private class is
    used so that the symbolic engine's own handling of KeyboardInterrupt is
    not triggered"""


class ProcOS:
    """OS + interpreter model for the job process"""

    def __init__(self, jobdir: Path):
        self.jobdir = jobdir
        self.locks = {}  # path -> pid
        self.pid = 100
        self.reset_process()
        self.body_completed_ever = False

    def reset_process(self):
        self.pid += 1
        self.atexit = []
        self.handlers = {}
        self.tick = 0
        self.crash_at = None
        self.crash_kind = 0  # 0 none 1 KILL 2 TERM 3 INT
        self.pid_at = 0
        self.in_body = False
        self.body_started = 0
        self.body_completed = False
        self.signal_in_body = False
        self.signalled = False
        self.body_outcome = 0
        self.body_code = 1
        self.body_tick_kind = 0


def build_instrumented(osm: ProcOS):
    """Compiles run.py with a __tick__(lineno) call before every statement of
    the TaskRunner methods; returns the module"""
    src = RUN_PY.read_text()
    tree = ast.parse(src)

    def tick_stmt(st):
        return ast.copy_location(
            ast.Expr(ast.Call(ast.Name("__tick__", ast.Load()), [ast.Constant(st.lineno)], [])), st
        )

    def wrap_block(body):
        out = []
        for st in body:
            out.append(tick_stmt(st))
            out.append(wrap_stmt(st))
        return out

    def wrap_stmt(st):
        for f in ("body", "orelse", "finalbody"):
            if isinstance(getattr(st, f, None), list):
                setattr(st, f, wrap_block(getattr(st, f)))
        if isinstance(st, ast.Try):
            for h in st.handlers:
                h.body = wrap_block(h.body)
        return st

    n_methods = 0
    for node in tree.body:
        if isinstance(node, ast.ClassDef) and node.name == "TaskRunner":
            for fn in node.body:
                if isinstance(fn, ast.FunctionDef):
                    fn.body = wrap_block(fn.body)
                    n_methods += 1
    assert n_methods >= 4, "TaskRunner methods not found"
    ast.fix_missing_locations(tree)
    m = types.ModuleType("experimaestro.run_xv")
    m.__package__ = "experimaestro"
    m.__file__ = str(RUN_PY)
    m.__dict__["__tick__"] = lambda lineno: None
    exec(compile(tree, str(RUN_PY), "exec"), m.__dict__)
    return m


_M = [None]


def module():
    if _M[0] is None:
        _M[0] = build_instrumented(None)
    return _M[0]


def setup(mode):
    import logging

    logging.disable(logging.CRITICAL)
    module()


class FakeLock:
    def __init__(self, osm, path):
        self.osm, self.path = osm, str(path)
        self.acquired = False

    def acquire(self, blocking=True, **kw):
        o = self.osm.locks.get(self.path)
        if o is not None and o != self.osm.pid:
            # in the model, processes run one after the other: a lock can
            # only be held by a dead process if the model failed to release it
            raise AssertionError("lock held by another (dead) process")
        self.osm.locks[self.path] = self.osm.pid
        self.acquired = True
        return True

    def release(self):
        if self.osm.locks.get(self.path) == self.osm.pid:
            del self.osm.locks[self.path]
        self.acquired = False


def launch(osm: ProcOS, M, scriptpath: Path, crash_at, crash_kind, outcome, code, body_point):
    """One life of the job process; returns its exit status (None = killed)"""
    osm.reset_process()
    osm.crash_at, osm.crash_kind = crash_at, crash_kind
    osm.body_outcome, osm.body_code, osm.body_tick_kind = outcome, code, body_point
    pidfile = scriptpath.with_suffix(".pid")

    class FakeFasteners:
        @staticmethod
        def InterProcessLock(path):
            return FakeLock(osm, path)

    class FakeSignal:
        SIGTERM, SIGINT = 15, 2

        @staticmethod
        def signal(s, h):
            old = osm.handlers.get(s)
            osm.handlers[s] = h
            return old

    class FakeAtexit:
        @staticmethod
        def register(f):
            osm.atexit.append(f)

        @staticmethod
        def unregister(f):
            osm.atexit = [g for g in osm.atexit if g != f]

    class FakeOs:
        @staticmethod
        def chdir(p):
            pass

        @staticmethod
        def getpid():
            return osm.pid

        @staticmethod
        def register_at_fork(**kw):
            pass

    def deliver_signal():
        kind = osm.crash_kind
        osm.signalled = True
        if osm.in_body:
            osm.signal_in_body = True
        if kind == 1:
            raise Killed()
        signum = 15 if kind == 2 else 2
        h = osm.handlers.get(signum)
        if h is None:
            if kind == 2:
                raise Killed()  # default disposition of SIGTERM
            raise ModelKeyboardInterrupt()  # default SIGINT handler of CPython
        osm.crash_at = None  # a signal is delivered once
        h(signum, None)

    def tick(lineno):
        osm.tick += 1
        if osm.tick == 1 and osm.pid_at <= 1:
            pidfile.write_text('{"type": "local", "pid": 1}')
        if osm.crash_at is not None and osm.crash_kind != 0 and osm.tick == osm.crash_at:
            deliver_signal()

    def body(params):
        import sys

        osm.in_body = True
        osm.body_started += 1
        try:
            tick("body-begin")
            if osm.body_outcome == 1:
                raise ValueError("task failed")
            if osm.body_outcome == 2:
                if osm.body_code == 0:
                    osm.body_completed = True
                    osm.body_completed_ever = True
                sys.exit(osm.body_code)
            tick("body-end")
            osm.body_completed = True
            osm.body_completed_ever = True
        finally:
            osm.in_body = False

    M.__dict__.update(
        fasteners=FakeFasteners, signal=FakeSignal, atexit=FakeAtexit, os=FakeOs,
        report_eoj=lambda: None, run=body, __tick__=tick,
    )
    status = None
    killed = False
    try:
        try:
            runner = M.TaskRunner(str(scriptpath), [str(scriptpath.with_suffix(".lock"))])
            runner.run()
            status = 0
        except SystemExit as e:
            status = e.code if isinstance(e.code, int) else 1
        except Killed:
            killed = True
        except ModelKeyboardInterrupt:
            status = 130
        except Exception:
            status = 1
        if not killed:
            # interpreter shutdown: atexit handlers, last registered first
            for f in list(reversed(osm.atexit)):
                try:
                    f()
                except Killed:
                    killed = True
                    break
                except (SystemExit, ModelKeyboardInterrupt):
                    pass
    finally:
        # the process is gone: the OS drops its locks
        for p in [p for p, o in osm.locks.items() if o == osm.pid]:
            del osm.locks[p]
    return None if killed else status


def crash(
    t1: int, k1: int, o1: int, x1: int,
    t2: int, k2: int, o2: int, x2: int,
    t3: int, k3: int, o3: int, x3: int,
) -> bool:
    """Markers stay truthful whatever the instant and kind of death, over a
    launch followed by relaunches.

    post: _
    """
    M = module()
    root = rt.scratch_dir()
    jobdir = root / "job"
    with rt._notrace():
        jobdir.mkdir(parents=True)
    script = jobdir / "task.py"
    done, failed, pidf = script.with_suffix(".done"), script.with_suffix(".failed"), script.with_suffix(".pid")
    osm = ProcOS(jobdir)
    ok = True
    pre = SHARD.get("pre")
    if pre is not None:
        # inductive step: one life from an arbitrary job directory satisfying
        # the invariant (.done => the body completed in some earlier life,
        # no lock held); covers any number of earlier launches
        with rt._notrace():
            if pre[0]:
                done.touch()
            if pre[1]:
                failed.write_text("1")
            if pre[2]:
                pidf.write_text('{"type": "local", "pid": 7}')
        osm.body_completed_ever = bool(pre[0])
    lives = [(t1, k1, o1, x1), (t2, k2, o2, x2), (t3, k3, o3, x3)][: SHARD.get("launches", 2)]
    for li, (t, k, o, x) in enumerate(lives):
        kind = pick(k, 4)
        outcome = pick(o, 3)
        done_before = done.is_file()
        # the body's exit status is written to the .failed file: concrete menu
        code = [1, 0, 3][pick(x, 3)]
        status = launch(osm, M, script, t if kind != 0 else None, kind, outcome, code, 0)
        if kind != 0 and not osm.signalled:
            # the death tick lies beyond the end of this life: same as no signal
            kind = 0
        rt.note(f"life {li}: kind={kind} outcome={outcome} ticks={osm.tick} status={status} body_started={osm.body_started} completed={osm.body_completed} done={done.is_file()} failed={failed.is_file()} pid={pidf.is_file()}")
        # (a) a success marker only if the body ran to completion (now or before)
        if done.is_file() and not osm.body_completed_ever:
            rt.note("FAIL: .done without a completed body")
            ok = False
        # (b) the run lock dies with the process
        if osm.locks:
            rt.note("FAIL: lock survives the process")
            ok = False
        # (c) a launch that is not killed before reaching the body executes it
        #     exactly when no success marker existed at its start
        if kind == 0:
            if osm.body_started != (0 if done_before else 1):
                rt.note(f"FAIL: body executed {osm.body_started} times with done_before={done_before}")
                ok = False
        else:
            if done_before and osm.body_started != 0:
                rt.note("FAIL: body executed although the success marker existed")
                ok = False
        # (d) TERM/INT while the body runs: failure marker, no success marker
        if osm.signal_in_body and kind in (2, 3):
            if not failed.is_file() or (done.is_file() and not done_before):
                rt.note("FAIL: termination signal during the body without .failed / with .done")
                ok = False
        # (e) a job that ended on its own leaves no .pid file
        if kind == 0 and pidf.is_file() and not rt_known("C10-pid-left-on-success"):
            rt.note("FAIL: .pid file left by a job that ended on its own")
            ok = False
        # a completed body that exited 0 on its own leaves the success marker
        if kind == 0 and osm.body_completed and status == 0 and not done.is_file():
            rt.note("FAIL: body completed, exit 0, but no .done")
            ok = False
    rt.scratch_cleanup()
    return fin(ok)


def rt_known(fid):
    import os

    return fid in os.environ.get("XV_OPEN_FINDINGS", "").split(",")


def source_checksum() -> bool:
    """The instrumented copy is the same source as the imported module, and
    the generated job script lists the job lock file (concrete checks).

    post: _
    """
    import contextlib

    ctx = contextlib.nullcontext() if rt.concrete() else rt._notrace()
    with ctx:
        import experimaestro.run as R
        import inspect

        ok = inspect.getsource(R) == RUN_PY.read_text()
        src = (rt.REPO / "src/experimaestro/scriptbuilder.py").read_text()
        ok = ok and "for path in self.lockfiles" in src and "TaskRunner(" in src
        src2 = (rt.REPO / "src/experimaestro/commandline.py").read_text()
        ok = ok and "scriptbuilder.lockfiles.append(self.lockpath)" in src2
    return fin(ok)


def generated_script() -> bool:
    """Concrete complement: the job script generated by the real
    CommandLineJob.prepare / PythonScriptBuilder.write lists the job's lock
    file and hands it to TaskRunner (the runner can only protect the body
    with the lock it is given).

    post: _
    """
    import contextlib
    import re

    ctx = contextlib.nullcontext() if rt.concrete() else rt._notrace()
    with ctx:
        import experimaestro.scheduler.base as SB
        from experimaestro import RunMode
        from xv.env import sched
        from xv.harness import schedlib
        from xv.defs import deprec

        schedlib.setup("replay")
        root = rt.scratch_dir()
        sched.reset(root)
        ok = True
        try:
            xp = SB.experiment(root / "ws", "gen", run_mode=RunMode.GENERATE_ONLY)
            xp.__enter__()
            t = deprec.RTask(x=3)
            t.submit()
            job = t.__xpm__.job
            xp.__exit__(None, None, None)
            script = job.path / f"{job.name}.py"
            text = script.read_text()
            m = re.search(r"lockfiles = \[(.*?)\]", text, re.S)
            listed = m.group(1) if m else ""
            if job.lockpath.name not in listed:
                rt.note("FAIL: the generated script does not list the job lock file:", listed.strip())
                ok = False
            if "TaskRunner(" not in text or "lockfiles).run()" not in text:
                rt.note("FAIL: the generated script does not run the TaskRunner with the lock files")
                ok = False
            if (job.path / "params.json").is_file() is False:
                ok = False
        finally:
            SB.experiment.CURRENT = None
        rt.scratch_cleanup()
    return fin(ok)


def conditions(tier):
    conds = [{"name": "generated-script", "func": "generated_script", "shard": {}, "timeout": 120}]
    for d in (0, 1):
        for f in (0, 1):
            for p in (0, 1):
                conds.append({"name": f"step/done{d}failed{f}pid{p}", "func": "crash", "shard": {"launches": 1, "pre": [d, f, p]}, "timeout": 600 if tier == "quick" else 1800})
    # (two consecutive lives from the empty directory = 1506^2 paths: not run;
    # the inductive step above covers any number of relaunches)
    conds.append({"name": "source", "func": "source_checksum", "shard": {}, "timeout": 60})
    return conds


# ---------------------------------------------------------------- coroutine form of the runner
# Used by C05 (two overlapping launches of one job script): TaskRunner.run is
# turned into a generator that yields where the real process would block
# (lock acquisition) or run user code (the task body), so that two processes
# can be interleaved deterministically by the harness.


def build_coroutine_module():
    """Compiles run.py with, inside TaskRunner.run, `lock.acquire(...)`
    replaced by `(yield ("acquire", lock))` and the call of the task body
    `run(...)` replaced by `(yield ("body",))`"""
    src = RUN_PY.read_text()
    tree = ast.parse(src)
    found = {"acquire": 0, "body": 0}

    class T(ast.NodeTransformer):
        def visit_Call(self, node):
            self.generic_visit(node)
            f = node.func
            if isinstance(f, ast.Attribute) and f.attr == "acquire" and isinstance(f.value, ast.Name) and f.value.id == "lock":
                found["acquire"] += 1
                return ast.copy_location(ast.Yield(ast.Tuple([ast.Constant("acquire"), ast.Name("lock", ast.Load())], ast.Load())), node)
            if isinstance(f, ast.Name) and f.id == "run":
                found["body"] += 1
                return ast.copy_location(ast.Yield(ast.Tuple([ast.Constant("body")], ast.Load())), node)
            return node

    for node in tree.body:
        if isinstance(node, ast.ClassDef) and node.name == "TaskRunner":
            for fn in node.body:
                if isinstance(fn, ast.FunctionDef) and fn.name == "run":
                    T().visit(fn)
    assert found == {"acquire": 1, "body": 1}, f"TaskRunner.run changed shape: {found}"
    ast.fix_missing_locations(tree)
    m = types.ModuleType("experimaestro.run_xvco")
    m.__package__ = "experimaestro"
    m.__file__ = str(RUN_PY)
    exec(compile(tree, str(RUN_PY), "exec"), m.__dict__)
    return m
