"""C11 — restarting a killed experiment adopts running jobs and repeats nothing."""

from xv import rt
from xv.rt import fin, pick
from xv.env import sched
from xv.harness import schedlib
from xv.harness.schedlib import Scenario

SHARD: dict = {}

INFO = {
    "functions": [
        "scheduler/base.py:Scheduler.aio_submit (done marker, adoption through the pid file)", "commandline.py:CommandLineJob.aio_process/aio_run (pid file)", "connectors (Process.fromDefinition -> model handler)",
        "scheduler/base.py:Scheduler.aio_start", "scheduler/base.py:experiment.__enter__ (second run)", "tokens.py:CounterToken._update/TokenFile.watch (file-token variant)",
    ],
    "bounds": {
        "quick": {"jobs": "<=3 (one, chain2, indep2, chain3)", "death_point": "after 0..12 delivered events of the first run (one shard each; the events themselves are chosen symbolically)", "schedule": "3 symbolic choice points in each run (2 for indep2/chain3), then FIFO", "death": "SIGKILL-like (loop, helper threads and locks of the scheduler vanish; job processes live on)"},
        "thorough": {"schedule": "4 choice points in each run (3 for the three-job shapes and indep2)", "jobs": "adds fork3/join3 and a file token"},
    },
    "stubs": schedlib.STUBS + ["a process handle obtained from a pid file by another process has no exit status (like psutil for a non-child): the scheduler then relies on the markers"],
    "symbolic_data": True,
    "assumptions": ["exit codes symbolic", "the job process model writes its marker and releases the job lock atomically at exit (the statement-level behaviour of the real TaskRunner under death is C10's subject)", "the pid file is written in the same loop callback as the process is spawned (the window between both is outside)"],
    "outside": schedlib.OUTSIDE + ["that the OS keeps the children alive (LocalProcessBuilder.start does not create a new session: a terminal SIGINT reaches the children) - OS behaviour, not checked", "SIGINT delivered to the scheduler (SIGNAL_HANDLER -> xp.stop())"],
}


def setup(mode):
    schedlib.setup(mode)


def restart(
    c0: int, c1: int, c2: int, rev: bool, cut: int,
    s0: int, s1: int, s2: int, s3: int, s4: int,
    t0: int, t1: int, t2: int, t3: int, t4: int,
) -> bool:
    """The scheduler dies at a symbolic point; the same plan is run again:
    final states equal those of a run without crash, successful jobs were
    launched exactly once over both runs, a running job is never launched a
    second time while its first process is alive.

    post: _
    """
    import experimaestro.scheduler.base as SB

    shape, K = SHARD["shape"], SHARD["K"]
    deps = schedlib.SHAPES[shape]
    n = len(deps)
    codes = [c0, c1, c2][:n]
    tok = SHARD.get("token")
    reqs = [1 if (tok and tok[i]) else None for i in range(n)]
    first = Scenario(shape, codes, rev=rev, token="file" if tok else None, total=SHARD.get("total", 1), reqs=reqs)
    first.start()
    w = first.w
    w.silent_kill = True  # exit code -9: the job process is killed outright, no marker is written
    # first run: up to `cut` delivered events, then the scheduler dies
    limit = SHARD["cut"] if SHARD.get("cut") is not None else pick(cut, 8)
    k = 0
    choices = [s0, s1, s2, s3, s4]
    ci = 0
    while k < limit:
        en = w.enabled()
        if not en:
            break
        if len(en) > 1 and ci < K:
            c = pick(choices[ci], len(en))
            ci += 1
        else:
            c = 0
        w.deliver(en[c])
        k += 1
    first.abort("kill")
    if first.harness_errors():
        raise RuntimeError(str(first.harness_errors())[:300])
    # second run of the same plan by a new process
    sc = Scenario(shape, codes, rev=rev, token="file" if tok else None, total=SHARD.get("total", 1), reqs=reqs)
    sc.trace_start = 0
    sc.start(world=w, pid=2)
    sc.trace_start = 0
    sc.run([t0, t1, t2, t3, t4], K)
    errs = sc.harness_errors()
    if errs:
        raise RuntimeError("; ".join(errs)[:400])
    ok = True
    if sc.hung or sc.deadlock:
        rt.note("FAIL: the second run does not come to an end", sc.deadlock)
        ok = False
    exp = schedlib.expected_states(sc)
    for i in range(n):
        job = sc.jobs[i]
        kind, state = exp[i]
        if job is None or job._future is None or not job._future.task.done():
            rt.note(f"FAIL: job {i} not final in the second run ({job.state if job else None})")
            ok = False
            continue
        if job.state != state:
            rt.note(f"FAIL: job {i} ends {job.state}, a run without crash gives {state}")
            ok = False
        launches = [t for t in w.trace if t[0] == "launch" and t[1] == i]
        if kind == "run" and codes[i] == 0 and len(launches) != 1:
            rt.note(f"FAIL: successful job {i} was launched {len(launches)} times over both runs")
            ok = False
        if kind == "cancelled" and len(launches) != 0:
            rt.note(f"FAIL: job {i} launched although an ancestor failed")
            ok = False
        if len(launches) > 2:
            ok = False
    # never two live processes of the same job
    alive = {}
    for t in w.trace:
        if t[0] == "launch":
            if alive.get(t[1]):
                rt.note(f"FAIL: job {t[1]} launched while its first process was still alive")
                ok = False
            alive[t[1]] = True
        elif t[0] == "exit":
            alive[t[1]] = False
    if tok:
        left = [p.name for p in sc.token.path.glob("*.token")]
        if left:
            rt.note("FAIL: token files left after the second run", left)
            ok = False
    out = sc.finish()
    if out == "hang":
        ok = False
    rt.scratch_cleanup()
    return fin(ok)


def conditions(tier):
    conds = []
    K = 3 if tier == "quick" else 4
    tmo = 900 if tier == "quick" else 3000
    shapes = ["one", "chain2", "indep2", "chain3"] if tier == "quick" else ["one", "chain2", "indep2", "chain3", "fork3", "join3"]
    for sh in shapes:
        ncut = {"one": 6, "chain2": 10, "indep2": 10}.get(sh, 12)
        for cut in range(ncut + 1):
            # the death point (number of delivered events) is enumerated by the shard
            if tier == "quick":
                k = K if sh in ("one", "chain2") else 2
            else:
                k = K if sh in ("one", "chain2") else 3
            conds.append({"name": f"restart/{sh}/cut{cut}", "func": "restart", "shard": {"shape": sh, "K": k, "cut": cut}, "timeout": tmo})
    if tier == "thorough":
        conds.append({"name": "restart-token/indep2", "func": "restart", "shard": {"shape": "indep2", "K": K, "token": [1, 1], "total": 1}, "timeout": tmo})
    return conds
