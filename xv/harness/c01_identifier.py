"""C01 — a configuration's identifier is a pure function of its content.

Real code under symbolic execution: core/objects.py HashComputer.update/
compute, ConfigPath, ConfigInformation.identifiers/seal/__unseal__/submit
(dry run), TypeConfig.__init__, Job.relpath (concrete runs).

Oracle: after an arbitrary history of identifier requests / seal / unseal
operations, the byte stream hashed for every node of the graph equals the
encoding of its canonical signature (xv.ref.signature), which is computed from
the structure alone and never looks at caches.
"""

import json
import os
import subprocess
import sys

from xv import rt
from xv.rt import fin, pick
from xv.env import hashing
from xv.harness import graphs

SHARD: dict = {}

INFO = {
    "functions": [
        "core/objects.py:HashComputer.update", "core/objects.py:HashComputer.compute",
        "core/objects.py:ConfigPath.*", "core/objects.py:ConfigInformation.identifiers",
        "core/objects.py:ConfigInformation.seal", "core/objects.py:ConfigInformation.__unseal__",
        "core/objects.py:ConfigInformation.submit (DRY_RUN)", "core/objects.py:ConfigInformation.collect_pre_tasks",
        "core/objects.py:TypeConfig.__init__", "core/objects.py:clone", "scheduler/base.py:Job.relpath (concrete runs)",
    ],
    "bounds": {
        "quick": {"skeletons": sorted(graphs.SKELETONS), "history_length": 3, "nodes": "<=4", "string_lengths": "0..2 code points per string", "code_points": "0x20..0x7e"},
        "thorough": {"skeletons": sorted(graphs.SKELETONS), "history_length": "3 (every first operation, raw requests included, both selector settings, first assigned value symbolic)", "nodes": "<=4", "string_lengths": "0..3", "code_points": "0x20..0x7e"},
    },
    "stubs": [
        "hashlib.sha256 in core.objects -> Rec (digest = concatenated stream): identifier equality is stream equality, assuming sha256 collision-free",
        "inspect.stack/getframeinfo in core.objects -> constant (error messages only)",
        "termcolor.cprint in core.objects -> no-op",
        "floats come from a concrete menu picked by a symbolic selector (struct.pack('!d') realises symbolic floats)",
        "dict keys are concrete (menu)",
    ],
    "symbolic_data": True,
    "assumptions": [
        "ints are within int64 (struct '!q' raises outside)",
        "strings are 0..3 printable ASCII code points (symbolic)",
        "sha256 is collision-free",
        "golden identifiers were computed at the pinned commit 406b0b9 with the real sha256; PYTHONHASHSEED independence is sampled at 3 seeds (concrete complement, not a solver claim)",
    ],
    "outside": ["graphs larger than the skeletons", "histories longer than the bound", "NaN/-0.0/inf floats", "non-ASCII text (C03 covers the encoding)"],
}


def setup(mode):
    import experimaestro.core.objects as O

    if SHARD.get("real_hash"):
        hashing.install("replay")
    else:
        hashing.install(mode)
    O.cprint = lambda *a, **k: None


def _hasher():
    if SHARD.get("real_hash") or rt.concrete():
        import hashlib

        return hashlib.sha256
    return hashing.Rec


def _context():
    from experimaestro.xpmutils import DirectoryContext
    from pathlib import Path

    return DirectoryContext(Path("/xvctx"))


def _reachable_pretasks(config):
    """Reference: pre-tasks reachable from a configuration (through values,
    containers, task links, pre/init tasks), de-duplicated by object"""
    from experimaestro.core.objects import Config

    seen, pre = [], []

    def walk(x):
        if isinstance(x, Config):
            if any(x is s for s in seen):
                return
            seen.append(x)
            for val in x.__xpm__.values.values():
                walk(val)
            for p in x.__xpm__.pre_tasks:
                walk(p)
            for p in x.__xpm__.init_tasks:
                walk(p)
            if x.__xpm__.task is not None and x.__xpm__.task is not x:
                walk(x.__xpm__.task)
            for p in x.__xpm__.pre_tasks:
                if not any(p is q for q in pre):
                    pre.append(p)
        elif isinstance(x, list):
            for e in x:
                walk(e)
        elif isinstance(x, dict):
            for e in x.values():
                walk(e)

    walk(config)
    return pre


def check_nodes(g, hasher):
    """Every node's raw and full identifier equal the reference encoding"""
    from xv.ref import signature as R

    ok = True
    for n in g.nodes:
        raw = n.__xpm__.raw_identifier
        if SHARD.get("data") == "concrete":
            want = raw.main  # history conditions: the full identifier (which embeds the raw one) is compared
        else:
            want = R.digest(R.signature(n), hasher)
        if not (hashing.raw(raw.main) == hashing.raw(want)):
            rt.note("raw identifier mismatch on", type(n).__name__, hashing.raw(raw.main).hex() if rt.concrete() else "")
            ok = False
        full = n.__xpm__.full_identifier
        fwant = R.full_digest(R.full_signature(n, _reachable_pretasks(n)), hasher)
        if not (hashing.raw(full.main) == hashing.raw(fwant)):
            rt.note("full identifier mismatch on", type(n).__name__)
            ok = False
    return ok


def ident_history(
    i0: int, i1: int, i2: int, i3: int, i4: int, i5: int, i6: int, i7: int,
    c0: int, c1: int, c2: int, c3: int,
    s0: int, s1: int, s2: int, s3: int, s4: int, s5: int, s6: int, s7: int,
    h0: int, h1: int, h2: int, h3: int, h4: int, h5: int,
) -> bool:
    """After any history of identifier requests, sealing and unsealing, every
    node's identifier equals the encoding of its canonical signature.

    post: _
    """
    import xv.defs.ident as U

    if SHARD.get("data") == "concrete":
        # history conditions: the leaves are concrete (except the first int),
        # the solver enumerates the feasible histories
        v = graphs.V([i0, 2, -3, 4, 5, 6, 7, 8], [97, 98, 99, 100], [s0, s1, s2, s3, s4, s5, s6, s7])
    else:
        v = graphs.V([i0, i1, i2, i3, i4, i5, i6, i7], [c0, c1, c2, c3], [s0, s1, s2, s3, s4, s5, s6, s7])
    try:
        g = graphs.build(SHARD["sk"], U, v, SHARD.get("lens"))
    except graphs.Skip:
        return True
    n = len(g.nodes)
    hs = [h0, h1, h2, h3, h4, h5][: SHARD["k"]]
    # operations: [raw(j)] full(j) seal(j) [unseal root]; unsealing a submitted
    # task is internal API misuse (its identifier is fixed at submission):
    # only offered on task-free graphs
    with_raw = SHARD.get("ops", "all") == "all"
    # "set" = assign a new symbolic value to an int parameter of an unsealed
    # node (the content changes: the reference follows, stale caches do not)
    kinds = (["raw"] if with_raw else []) + ["full", "seal", "set"]
    zs = [i7 if SHARD.get("symz") else 77, 78, 79, 80, 81, 82]  # assigned values (first one symbolic in thorough)
    nops = len(kinds) * n + (0 if g.extra.get("tasks") else 1)
    first = SHARD.get("h0")
    for ix, h in enumerate(hs):
        if ix == 0 and first is not None:
            if first >= nops:
                return True
            op = first  # first operation enumerated by the shard
        else:
            op = pick(h, nops)
        if op >= len(kinds) * n:
            g.root.__xpm__.__unseal__()
            rt.note("unseal root")
            continue
        kind, j = kinds[op // n], op % n
        if kind == "set":
            nd = g.nodes[j]
            z = zs[ix]
            if nd.__xpm__._sealed or not (-(2**63) <= z < 2**63):
                continue
            name = next((nm for nm, a in nd.__xpmtype__.arguments.items() if a.type.__class__.__name__ == "IntType" and not a.constant and not a.ignored and a.generator is None), None)
            if name is not None:
                # (the setattr() builtin runs its target untraced under
                # CrossHair: call what the parameter property calls)
                nd.__xpm__.set(name, z)
        elif kind == "raw":
            g.nodes[j].__xpm__.raw_identifier
        elif kind == "full":
            g.nodes[j].__xpm__.full_identifier
        else:
            g.nodes[j].__xpm__.seal(_context())
        rt.note(kind, j)
    ok = check_nodes(g, _hasher())
    if rt.concrete() and g.extra.get("tasks"):
        # job directory = type id / hex(full identifier)
        for t in g.extra["tasks"]:
            job = t.__xpm__.job
            ok = ok and str(job.relpath) == f"{t.__xpmtype__.identifier}/{t.__xpm__.full_identifier.all.hex()}"
    return fin(ok)


# ---------------------------------------------------------------- concrete complements

GOLDEN = os.path.join(os.path.dirname(__file__), "..", "ref", "golden.json")
GOLDEN_ARGS = [
    dict(zip(
        ["i0", "i1", "i2", "i3", "i4", "i5", "i6", "i7", "c0", "c1", "c2", "c3", "s0", "s1", "s2", "s3", "s4", "s5", "s6", "s7"],
        vals,
    ))
    for vals in (
        [1, 2, 3, 4, 5, 6, 7, 8, 65, 66, 67, 68, 0, 0, 0, 0, 0, 0, 0, 0],
        [-5, 2**40, 0, -1, 9, 10, 11, 12, 120, 32, 126, 97, 1, 2, 1, 3, 1, 0, 1, 2],
        [7, 7, 7, 7, 7, 7, 7, 7, 97, 97, 97, 97, 1, 1, 1, 1, 1, 1, 1, 1],
    )
]


def compute_ids():
    """Identifiers (real sha256) of every node of every skeleton for the
    golden argument vectors"""
    import xv.defs.ident as U

    out = {}
    for sk in sorted(graphs.SKELETONS):
        for ai, a in enumerate(GOLDEN_ARGS):
            v = graphs.V([a[f"i{j}"] for j in range(8)], [a[f"c{j}"] for j in range(4)], [a[f"s{j}"] for j in range(8)])
            g = graphs.build(sk, U, v)
            out[f"{sk}/{ai}"] = [
                [type(n).__name__, n.__xpm__.raw_identifier.all.hex(), n.__xpm__.full_identifier.all.hex()] for n in g.nodes
            ]
    return out


def golden() -> bool:
    """Identifiers computed by the working tree (real sha256) equal the ones
    pinned at commit 406b0b9, in this process and in fresh processes started
    under other PYTHONHASHSEED values.

    post: _
    """
    from crosshair.tracers import NoTracing
    import contextlib

    ctx = contextlib.nullcontext() if rt.concrete() else NoTracing()
    with ctx:
        want = json.load(open(GOLDEN))
        got = compute_ids()
        ok = got == want
        if not ok:
            for k in want:
                if got.get(k) != want[k]:
                    rt.note("golden mismatch", k, got.get(k), want[k])
        for seed in ("1", "4242"):
            env = dict(os.environ, PYTHONHASHSEED=seed)
            p = subprocess.run(
                [sys.executable, "-c", "import json,sys; from xv.harness import c01_identifier as m; m.SHARD={'real_hash':1}; m.setup('replay'); json.dump(m.compute_ids(), sys.stdout)"],
                capture_output=True, text=True, env=env,
            )
            try:
                other = json.loads(p.stdout[p.stdout.index("{"):])
            except Exception:
                rt.note("subprocess failed", p.stderr[-300:])
                other = None
            ok = ok and other == want
    return fin(ok)


NODES = {"marker": 4, "nestedcont": 4, "flat": 1, "pair": 1, "floats": 1, "nested": 3, "shared": 4, "deep": 3, "list": 3, "dict": 3, "nestedlists": 1, "cyc2": 2, "cyc3": 3, "taskself": 2, "taskout": 4, "tasklist": 3, "pretask": 4}


def conditions(tier):
    conds = []
    caching = ("shared", "cyc2", "cyc3", "taskself", "taskout", "tasklist", "pretask")
    for sk, (_, nstr) in sorted(graphs.SKELETONS.items()):
        # (a) data: no history, every leaf and structure selector symbolic
        lens_list = [[1] * nstr, [2] * nstr] if tier == "quick" else [[0] * nstr, [1] * nstr, [2] * nstr, [3] * nstr]
        if nstr == 0:
            lens_list = [[]]
        for lens in lens_list:
            if sum(lens) > 4:
                continue  # the harness has four symbolic code points
            nm = f"data/{sk}" + ("-" + "".join(map(str, lens)) if lens else "")
            conds.append({"name": nm, "func": "ident_history", "shard": {"sk": sk, "k": 0, "lens": lens, "data": "symbolic", "small_ints": 1}, "timeout": 300 if tier == "quick" else 1200})
        # (b) histories: symbolic operation sequence (first operation
        # enumerated by the shard), concrete leaves
        ops = "full" if tier == "quick" else "all"
        # three operations are the minimum for "request, assign, seal" (then
        # the final check requests again)
        k = 3  # thorough widens the operation set and the first operations instead of the length
        n = NODES[sk]
        nops = (3 if ops == "full" else 4) * n + (0 if sk in ("taskself", "taskout", "tasklist") else 1)
        firsts = list(range(nops)) if n >= 3 else [None]
        if tier == "quick" and n >= 3:
            # quick: the first operation is one on the root or on the last
            # node (every kind), or the unsealing; thorough: every first operation
            nk = 3 if ops == "full" else 4
            firsts = sorted(set([kk * n + j for kk in range(nk) for j in (0, n - 1)] + ([nops - 1] if nops > nk * n else [])))
        for fs in ([0] * 8, [1] * 8) if tier == "thorough" else ([1] * 8,):
            for h0 in firsts:
                if sk == "nested" and fs[0] == 0 and h0 is not None:
                    # with these selectors the optional second leaf is absent (2 nodes)
                    nk = 3 if ops == "full" else 4
                    if h0 >= nk * 2 + 1:
                        continue
                nm = f"history/{sk}/k{k}sel{fs[0]}" + (f"first{h0}" if h0 is not None else "")
                conds.append({"name": nm, "func": "ident_history", "shard": {"sk": sk, "k": k, "lens": [1] * nstr, "fixed_sels": fs, "data": "concrete", "ops": ops, "h0": h0, "symz": tier == "thorough"}, "timeout": 400 if tier == "quick" else 2400})
    conds.append({"name": "golden", "func": "golden", "shard": {"real_hash": 1}, "timeout": 300})
    return conds
