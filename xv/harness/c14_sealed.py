"""C14 — submitted configurations are frozen together with their identity."""

from pathlib import Path

from xv import rt
from xv.rt import fin, pick
from xv.env import hashing
from xv.harness import graphs

SHARD: dict = {}

MUTATIONS = ["assign_param", "assign_meta_param", "assign_none", "setmeta", "add_pretasks", "assign_container"]

INFO = {
    "functions": [
        "core/objects.py:ConfigInformation.seal (Sealer walk)", "core/objects.py:ConfigInformation.set", "core/objects.py:ConfigInformation.set_meta",
        "core/objects.py:TypeConfig.add_pretasks", "core/objects.py:ConfigInformation.identifiers", "core/objects.py:ConfigInformation.submit (DRY_RUN)",
        "core/objects.py:ConfigInformation.fromConfig (instance())", "core/objects.py:ConfigWalk.__call__", "scheduler/base.py:Job.relpath (concrete runs)",
    ],
    "bounds": {
        "quick": {"skeletons": "all 15 + gentask", "sealing": "seal() / instance() / dry-run submit (per shard)", "mutation_attempts": "2 per path (symbolic kind, node and value), interleaved with identifier requests"},
        "thorough": {"mutation_attempts": 3},
    },
    "stubs": ["hashlib.sha256 -> Rec", "inspect.stack -> constant", "cprint -> no-op"],
    "symbolic_data": True,
    "assumptions": ["ints within int64, strings printable ASCII"],
    "outside": ["in-place mutation of a list/dict object held by a sealed parameter (cfg.xs.append(..)) bypasses set(): the property speaks of assignments", "the internal __unseal__ API"],
}


def setup(mode):
    import experimaestro.core.objects as O

    hashing.install(mode)
    O.cprint = lambda *a, **k: None


def _attempt(kind, nd, U, z):
    """Tries one mutation on a sealed node; returns (applicable, rejected, unchanged)"""
    from experimaestro.core.objects import SealedError

    xt = nd.__xpmtype__
    info = nd.__xpm__
    before = dict(info.values)
    meta_before, pre_before = info.meta, list(info.pre_tasks)
    rejected = False
    try:
        if kind == "assign_param":
            name = next((n for n, a in xt.arguments.items() if a.type.__class__.__name__ == "IntType" and not a.constant and not a.ignored), None)
            if name is None:
                return False, True, True
            setattr(nd, name, z)
        elif kind == "assign_meta_param":
            name = next((n for n, a in xt.arguments.items() if a.ignored and a.generator is None), None)
            if name is None:
                return False, True, True
            setattr(nd, name, z if xt.arguments[name].type.__class__.__name__ == "IntType" else None)
        elif kind == "assign_none":
            name = next((n for n, a in xt.arguments.items() if not a.required and a.generator is None and not a.constant), None)
            if name is None:
                return False, True, True
            setattr(nd, name, None)
        elif kind == "assign_container":
            name = next((n for n, a in xt.arguments.items() if a.type.__class__.__name__ in ("ArrayType", "DictType")), None)
            if name is None:
                return False, True, True
            setattr(nd, name, [] if xt.arguments[name].type.__class__.__name__ == "ArrayType" else {})
        elif kind == "setmeta":
            info.set_meta(True if z % 2 == 0 else False)
        elif kind == "add_pretasks":
            nd.add_pretasks(U.Pre(z=z))
    except (AttributeError, AssertionError, SealedError):
        rejected = True
    unchanged = True
    for k2, v2 in before.items():
        if info.values.get(k2) is not v2 and info.values.get(k2) != v2:
            unchanged = False
    if len(info.values) != len(before) or info.meta != meta_before or len(info.pre_tasks) != len(pre_before):
        unchanged = False
    return True, rejected, unchanged


def frozen(
    i0: int, i1: int, i2: int, i3: int, i4: int, i5: int, i6: int, i7: int,
    c0: int, c1: int, c2: int, c3: int,
    s0: int, s1: int, s2: int, s3: int, s4: int, s5: int, s6: int, s7: int,
    m0: int, n0: int, z0: int, m1: int, n1: int, z1: int, m2: int, n2: int, z2: int,
) -> bool:
    """After sealing, every mutation attempt on any reachable node is
    rejected and changes nothing; identifiers stay what they were.

    post: _
    """
    import xv.defs.ident as U
    from experimaestro.xpmutils import DirectoryContext

    try:
        # leaves concrete except the first int: this harness is about the
        # sequence of mutation attempts (kinds, nodes, values are symbolic)
        g = graphs.build(SHARD["sk"], U, graphs.V([i0, 2, -3, 4, 5, 6, 7, 8], [97, 98, 99, 100], [s0, s1, s2, s3, s4, s5, s6, s7]), SHARD.get("lens"))
    except graphs.Skip:
        return True
    how = SHARD["seal"]
    if SHARD.get("pre_ops"):
        # before sealing: an identifier request on a symbolic node, then a
        # legitimate assignment on a symbolic node (what is frozen afterwards
        # must be the identifier of the content as it is when sealed)
        a = g.nodes[pick(n0, len(g.nodes))]
        b = g.nodes[pick(n1, len(g.nodes))]
        if not a.__xpm__._sealed and not b.__xpm__._sealed:
            a.__xpm__.full_identifier
            name = next((nm for nm, arg in b.__xpmtype__.arguments.items() if arg.type.__class__.__name__ == "IntType" and not arg.constant and not arg.ignored and arg.generator is None), None)
            if name is not None:
                b.__xpm__.set(name, 4242)
    if how == "seal":
        g.root.__xpm__.seal(DirectoryContext(Path("/xvctx")))
    elif how == "instance":
        g.root.instance(DirectoryContext(Path("/xvctx")))
    elif how == "submit":
        graphs.dry_submit(g.root)
    ok = True
    for n in g.nodes:
        if not n.__xpm__._sealed:
            rt.note("FAIL: node not sealed:", type(n).__name__)
            ok = False
    ids = [(hashing.raw(n.__xpm__.raw_identifier.main), hashing.raw(n.__xpm__.full_identifier.main)) for n in g.nodes]
    if SHARD.get("pre_ops"):
        # what was frozen is the identifier of the sealed content (reference model of C01)
        from xv.harness import c01_identifier as C01

        C01.SHARD = {"data": "symbolic"}
        if not C01.check_nodes(g, hashing.Rec if not rt.concrete() else __import__("hashlib").sha256):
            rt.note("FAIL: the frozen identifier is not the identifier of the sealed content")
            ok = False
    relpath = str(g.root.__xpm__.job.relpath) if (how == "submit" and rt.concrete()) else None
    attempts = [(m0, n0, z0), (m1, n1, z1), (m2, n2, z2)][: SHARD.get("attempts", 2)]
    for ai, (m, nsel, z) in enumerate(attempts):
        if not (-(2**63) <= z < 2**63):
            return True
        if ai == 0 and SHARD.get("m0") is not None:
            kind = MUTATIONS[SHARD["m0"]]  # first attempt's kind enumerated by the shard
        else:
            kind = MUTATIONS[pick(m, len(MUTATIONS))]
        nd = g.nodes[pick(nsel, len(g.nodes))]
        applicable, rejected, unchanged = _attempt(kind, nd, U, z)
        rt.note("attempt", kind, "on", type(nd).__name__, "rejected" if rejected else "ACCEPTED", "unchanged" if unchanged else "CHANGED")
        if applicable and not (rejected and unchanged):
            ok = False
        # an identifier request between attempts
        nd.__xpm__.full_identifier
    for n, (raw, full) in zip(g.nodes, ids):
        if not (hashing.raw(n.__xpm__.raw_identifier.main) == raw and hashing.raw(n.__xpm__.full_identifier.main) == full):
            rt.note("FAIL: identifier changed on", type(n).__name__)
            ok = False
    if relpath is not None and str(g.root.__xpm__.job.relpath) != relpath:
        ok = False
    return fin(ok)


def sk_gentask(U, v, L):
    leaf = U.Leaf(i=v.int())
    t = U.GenTask(x=v.int(), node=U.Node(child=leaf), leaf=leaf, leafs=[U.Leaf(i=v.int())], d={"a": U.Leaf(i=v.int())}, bag=U.Bag(xs=[leaf]))
    return graphs.G(t, [t, t.node, leaf, t.leafs[0], t.d["a"], t.bag])


graphs.SKELETONS["gentask"] = (sk_gentask, 0)


def conditions(tier):
    conds = []
    tmo = 300 if tier == "quick" else 1200
    for sk in ("flat", "nested", "shared", "list", "cyc2"):
        nstr = graphs.SKELETONS[sk][1]
        for how in ("seal", "instance"):
            conds.append({"name": f"frozen-after-edit/{sk}/{how}", "func": "frozen", "shard": {"sk": sk, "seal": how, "m0": 0, "lens": [1] * nstr, "attempts": 1, "fixed_sels": [1] * 8, "pre_ops": 1}, "timeout": tmo})
    tasks_roots = ("taskself", "taskout", "tasklist", "gentask")
    for sk, (_, nstr) in sorted(graphs.SKELETONS.items()):
        hows = ["seal", "instance"]
        if sk in tasks_roots:
            hows = ["submit", "seal"]
        if sk == "pretask":
            hows = ["submit", "seal"]
        for how in hows:
            if tier == "quick":
                # one symbolic attempt (kind, node, value), two for the small skeletons
                att = 2 if sk in ("flat", "cyc2", "taskself") else 1
                conds.append({"name": f"frozen/{sk}/{how}", "func": "frozen", "shard": {"sk": sk, "seal": how, "m0": None, "lens": [1] * nstr, "attempts": att, "fixed_sels": [1] * 8}, "timeout": tmo})
                continue
            for m0 in range(len(MUTATIONS)):
                conds.append({"name": f"frozen/{sk}/{how}/{MUTATIONS[m0]}", "func": "frozen", "shard": {"sk": sk, "seal": how, "m0": m0, "lens": [1] * nstr, "attempts": 2, "fixed_sels": [1] * 8}, "timeout": 3000})
    return conds
