"""C03 — configurations with different signatures never share an identifier.

Real code under symbolic execution: HashComputer.update byte stream (with
CrossHair's exact symbolic struct.pack('!q') and UTF-8 encoder), concatenated
by the Rec stub; full identifier (pre-tasks / init tasks) through
ConfigInformation.identifiers.

Harness `pair`: two graphs A and B built from *families* (shard) with
independent symbolic leaves; post-condition:
    signature(A) != signature(B)  =>  stream(A) != stream(B)
compared on the concatenated bytes (what sha256 sees).
"""

from xv import rt
from xv.rt import fin
from xv.env import hashing
from xv.harness import graphs

SHARD: dict = {}

INFO = {
    "functions": [
        "core/objects.py:HashComputer.update", "core/objects.py:HashComputer.compute",
        "core/objects.py:ConfigInformation.identifiers (full identifier: pre-tasks, init tasks)",
        "core/objects.py:ConfigInformation.submit (DRY_RUN, task outputs)", "core/objects.py:is_ignored/remove_meta",
    ],
    "bounds": {
        "quick": {"pairs": "all variant pairs inside each family (see conditions)", "string_total_length": "<=4 per graph", "code_points": "0x20..0x7e", "dict_nesting": "<=2", "list_nesting": "<=2"},
        "thorough": {"pairs": "all variant pairs inside each family + cross-family pairs", "string_total_length": "<=6 per graph", "code_points": "0x20..0x7e and (second pass) 0xa0..0x10ffff", "dict_nesting": "<=2"},
    },
    "stubs": [
        "hashlib.sha256 -> Rec (concatenated stream). A nested configuration contributes its variable-length stream where the real code contributes a fixed 32-byte digest: fixed-width digests can only remove ambiguity, so CONFIRMED on the stub is conservative; a collision found on the stub is replayed with the real sha256",
        "inspect.stack -> constant; cprint -> no-op; floats from a concrete menu; dict keys concrete",
    ],
    "symbolic_data": True,
    "assumptions": [
        "text without control characters (property's own domain): code points 0x20..0x7e, thorough also 0xa0..0x10ffff without surrogates",
        "dictionaries nested at most two levels (property's own domain)",
        "ints within int64; floats from the menu (finite, no -0.0)",
        "sha256 collision-free",
    ],
    "outside": ["control characters and dict nesting >= 3: kept as negative controls that the engine must refute", "string totals above the bound"],
}


def setup(mode):
    import experimaestro.core.objects as O

    hashing.install(mode)
    O.cprint = lambda *a, **k: None


# ---------------------------------------------------------------- families
# family(U, v, variant) -> root configuration (the identifier compared is the
# full identifier of the root)


def fam_pair(U, v, var):
    la, lb = var
    return U.Pair(a=v.str(la), b=v.str(lb))


def fam_paird(U, v, var):
    """second string parameter defaulted (var[1] None = left to its default)"""
    import xv.defs.ident_variants as UV

    la, lb = var
    if lb is None:
        return UV.PairD(a=v.str(la))
    return UV.PairD(a=v.str(la), b=v.str(lb))


def fam_pairx(U, v, var):
    """strings next to ints in sibling parameters"""
    la, lb, setx, sety = var
    kw = {"a": v.str(la), "b": v.str(lb)}
    if setx:
        kw["x"] = v.int()
    if sety:
        kw["y"] = v.int()
    return U.Pair(**kw)


def fam_strlist(U, v, var):
    """var = (param, [lengths...])"""
    param, lens = var
    return U.Bag(**{param: [v.str(n) for n in lens]})


def fam_intlist(U, v, var):
    param, n = var
    return U.Bag(**{param: [v.int() for _ in range(n)]})


def fam_nestedint(U, v, var):
    """var = list of inner lengths, e.g. [1, 2] -> [[i], [i, i]]"""
    return U.Bag(ll=[[v.cint() for _ in range(n)] for n in var])


def fam_neststr(U, v, var):
    """var = list of lists of string lengths"""
    return U.Bag(ls=[[v.str(n) for n in inner] for inner in var])


def fam_dict(U, v, var):
    """var = (param, [keys])"""
    param, keys = var
    return U.Bag(**{param: {k: v.cint() for k in keys}})


def fam_dict2(U, v, var):
    """var = {outer key: [inner keys]}  (two-level dict, values ints)"""
    return U.Bag(dd={ok: {ik: v.cint() for ik in iks} for ok, iks in var})


def fam_leaf(U, v, var):
    """var = (class name, set o?, enum index or None, strlen or None)"""
    cls, seto, en, sl = var
    kw = {"i": v.int()}
    if seto:
        kw["o"] = v.int()
    if en is not None:
        kw["e"] = [U.Color.RED, U.Color.GREEN, U.Color.BLUE][en]
    if sl is not None:
        kw["s"] = v.str(sl)
    return getattr(U, cls)(**kw)


def fam_node(U, v, var):
    """var = (child position: 'child'|'other'|'both', x set?)"""
    pos, setx = var
    kw = {}
    if setx:
        kw["x"] = v.cint()
    if pos == "child":
        kw["child"] = U.Leaf(i=v.cint())
    elif pos == "both":
        kw["child"] = U.Leaf(i=v.cint())
        kw["other"] = U.Leaf(i=v.cint())
    elif pos == "swap":
        a, b = U.Leaf(i=v.cint()), U.Leaf(i=v.cint())
        kw["child"], kw["other"] = b, a
    elif pos == "same":
        a = U.Leaf(i=v.cint())
        kw["child"], kw["other"] = a, a
    return U.Node(**kw)


def fam_objlist(U, v, var):
    """var = ('xs', n) list of n leaves | ('d', keys) dict of leaves"""
    kind, spec = var
    if kind == "xs":
        return U.Bag(xs=[U.Leaf(i=v.cint()) for _ in range(spec)])
    return U.Bag(d={k: U.Leaf(i=v.cint()) for k in spec})


def fam_floats(U, v, var):
    """var = (flag set?, enum idx, n set?)"""
    setflag, en, setn = var
    kw = {"f": [0.0, 1.0, 0.5, -2.25][v.sel(4)], "g": [0.5, 1.0][v.sel(2)]}
    if setflag:
        kw["flag"] = v.bool()
    if setn:
        kw["n"] = v.int()
    kw["e"] = [U.Shade.RED, U.Shade.DARK][en]
    return U.Floats(**kw)


def fam_const(U, v, var):
    """var = class name among Leaf (k=7) / LeafK8 (same type id, k=8)"""
    import xv.defs.ident_variants as UV

    cls = getattr(UV, var) if hasattr(UV, var) else getattr(U, var)
    return cls(i=v.int())


def fam_taskout(U, v, var):
    """var = producing task flavour: 'p2' Produce2->Out, 'self' Produce,
    'plain' (an Out that no task produced)"""
    if var == "p2":
        out = graphs.dry_submit(U.Produce2(x=v.cint(), out=U.Out(w=v.cint())))
        return U.Wrap(out=out)
    if var == "plain":
        v.cint()
        return U.Wrap(out=U.Out(w=v.cint()))
    if var == "self":
        out = graphs.dry_submit(U.Produce(x=v.cint()))
        return U.Wrap(inner=out)
    raise KeyError(var)


def fam_pre(U, v, var):
    """var = (pre-task classes attached to the root, init task classes)"""
    pre, init, order = var
    t = U.Produce(x=v.cint())
    zs = [v.cint(), v.cint()]
    pres = [getattr(U, c)(z=zs[i]) for i, c in enumerate(pre)]
    if order:
        pres = list(reversed(pres))
    if pres:
        t.add_pretasks(*pres)
    # (same payloads as the pre-tasks: a lightweight task moved from the
    # pre-task set to the init-task sequence is one structural edit)
    inits = [getattr(U, c)(z=zs[i]) for i, c in enumerate(init)]
    graphs.dry_submit(t, init_tasks=inits)
    return t


FAMILIES = {
    "pair": fam_pair, "paird": fam_paird, "pairx": fam_pairx, "strlist": fam_strlist, "intlist": fam_intlist,
    "nestedint": fam_nestedint, "neststr": fam_neststr, "dict": fam_dict, "dict2": fam_dict2,
    "leaf": fam_leaf, "node": fam_node, "objlist": fam_objlist, "floats": fam_floats,
    "const": fam_const, "taskout": fam_taskout, "pre": fam_pre,
}

VARIANTS = {
    "pair": [[0, 0], [1, 0], [0, 1], [1, 1], [2, 0], [0, 2], [2, 1], [1, 2], [3, 0], [2, 2], [3, 1], [1, 3]],
    "paird": [[1, None], [2, None], [1, 1], [0, 1], [3, None], [2, 1], [1, 2], [6, None]],
    "pairx": [[1, 1, 0, 0], [1, 1, 1, 0], [1, 1, 0, 1], [1, 1, 1, 1], [2, 0, 1, 0], [0, 2, 0, 1]],
    "strlist": [["strs", []], ["strs", [0]], ["strs", [1]], ["strs", [2]], ["strs", [1, 1]], ["strs", [2, 1]], ["strs", [1, 2]], ["strs", [0, 2]], ["strs", [1, 1, 1]], ["strs2", [1]], ["strs2", [1, 1]], ["strs2", [2]]],
    "intlist": [["ints", 0], ["ints", 1], ["ints", 2], ["ints", 3], ["ints2", 1], ["ints2", 2]],
    "nestedint": [[], [0], [1], [2], [1, 1], [2, 1], [1, 2], [0, 2], [3], [1, 1, 1], [0, 0]],
    "neststr": [[[1]], [[2]], [[1, 1]], [[1], [1]], [[2], []], [[], [2]], [[1], [2]], [[2], [1]]],
    "dict": [["di", []], ["di", ["a"]], ["di", ["ab"]], ["di", ["b"]], ["di", ["a", "b"]], ["di", ["a", "ab"]], ["di", ["ab", "b"]], ["di2", ["a"]], ["di2", ["a", "b"]]],
    "dict2": [
        [["a", ["b"]]], [["a", ["a"]]], [["b", ["a"]]], [["a", ["a", "b"]]], [["a", ["a"]], ["b", []]], [["a", []], ["b", ["a"]]],
        [["a", ["a"]], ["b", ["b"]]], [["a", ["a", "b"]], ["b", []]], [["a", []], ["b", ["a", "b"]]], [["a", ["b"]], ["b", ["a"]]], [["a", []]], [],
    ],
    "leaf": [["Leaf", 0, None, None], ["Leaf2", 0, None, None], ["Leaf", 1, None, None], ["Leaf", 0, 1, None], ["Leaf", 0, 2, None], ["Leaf", 0, None, 1], ["Leaf", 0, None, 2], ["Leaf", 1, 1, 1]],
    "node": [["child", 0], ["child", 1], ["both", 0], ["swap", 0], ["same", 0], ["both", 1]],
    "objlist": [["xs", 0], ["xs", 1], ["xs", 2], ["d", ["a"]], ["d", ["b"]], ["d", ["a", "b"]], ["d", ["a", "ab"]]],
    "floats": [[0, 0, 0], [1, 0, 0], [0, 1, 0], [0, 0, 1], [1, 1, 1]],
    "const": ["Leaf", "LeafK8", "LeafNoK"],
    "taskout": ["p2", "plain", "self"],
    "pre": [[[], [], 0], [["Pre"], [], 0], [["Pre2"], [], 0], [["Pre", "Pre2"], [], 0], [["Pre", "Pre2"], [], 1], [["Pre", "Pre"], [], 0], [[], ["Pre"], 0], [[], ["Pre", "Pre2"], 0], [[], ["Pre2", "Pre"], 0], [["Pre"], ["Pre"], 0]],
}


def _build(side, ints, codes, sels, lo, hi):
    import xv.defs.ident as U

    v = graphs.V(ints, codes, sels, lo=lo, hi=hi)
    fam, var = SHARD[f"fam{side}"], SHARD[f"var{side}"]
    root = FAMILIES[fam](U, v, var)
    return root, v


def _sig_equal(sa, sb):
    """raw signatures equal, init-task sequences equal, pre-task *multisets*
    equal (pre-tasks are documented as order-less)"""
    if not (sa[0] == sb[0] and sa[2] == sb[2]):
        return False
    pa, pb = sa[1], sb[1]
    if len(pa) != len(pb):
        return False
    if len(pa) <= 1:
        return pa == pb
    if len(pa) == 2:
        return (pa[0] == pb[0] and pa[1] == pb[1]) or (pa[0] == pb[1] and pa[1] == pb[0])
    raise NotImplementedError("more than two pre-tasks")


def pair(
    a0: int, a1: int, a2: int, a3: int, b0: int, b1: int, b2: int, b3: int,
    p0: int, p1: int, p2: int, p3: int, p4: int, p5: int, p6: int, p7: int,
    q0: int, q1: int, q2: int, q3: int, q4: int, q5: int, q6: int, q7: int,
    s0: int, s1: int, s2: int, t0: int, t1: int, t2: int,
) -> bool:
    """signature(A) != signature(B) => hashed stream(A) != hashed stream(B)

    post: _
    """
    from xv.ref import signature as R
    from xv.harness.c01_identifier import _reachable_pretasks

    lo, hi = SHARD.get("lo", 32), SHARD.get("hi", 127)
    try:
        A, va = _build("A", [a0, a1, a2, a3], [p0, p1, p2, p3, p4, p5, p6, p7], [s0, s1, s2], lo, hi)
        B, vb = _build("B", [b0, b1, b2, b3], [q0, q1, q2, q3, q4, q5, q6, q7], [t0, t1, t2], lo, hi)
    except graphs.Skip:
        return True
    sa = R.full_signature(A, _reachable_pretasks(A))
    sb = R.full_signature(B, _reachable_pretasks(B))
    ida = hashing.raw(A.__xpm__.full_identifier.main)
    idb = hashing.raw(B.__xpm__.full_identifier.main)
    if rt.concrete():
        rt.note("sigA", sa)
        rt.note("sigB", sb)
        rt.note("idA", ida.hex(), "idB", idb.hex())
    # streams first: paths on which they differ end here (the converse
    # direction, equal signatures => equal identifiers, is C01/C02's subject)
    if ida != idb:
        return fin(True)
    return fin(_sig_equal(sa, sb))


def conditions(tier):
    conds = []

    def add(famA, ia, famB, ib, **kw):
        name = f"pair/{famA}{ia}-{famB}{ib}" + kw.pop("suffix", "")
        shard = {"famA": famA, "varA": VARIANTS[famA][ia], "famB": famB, "varB": VARIANTS[famB][ib]}
        shard.update(kw.pop("shard", {}))
        # ints beyond the first `small_ints` of each side are one byte wide
        fullrange = [("leaf", 0, "leaf", 0), ("intlist", 1, "intlist", 1), ("leaf", 0, "leaf", 1), ("dict", 1, "dict", 1)]
        if tier == "quick":
            shard.setdefault("small_ints", 1 if (famA, ia, famB, ib) in fullrange else 0)
        else:
            shard.setdefault("small_ints", 0 if (famA, ia) == (famB, ib) and (famA, ia, famB, ib) not in fullrange else 1)
        tmo = 240 if tier == "quick" else 1200
        if shard.get("small_ints"):
            tmo *= 3  # full-range ints: seconds of solver time per path
        conds.append({"name": name, "func": "pair", "shard": shard, "timeout": kw.pop("timeout", tmo), **kw})

    def strtotal(fam, var):
        if fam == "pair":
            return sum(var)
        if fam == "paird":
            return var[0] + (var[1] or 0)
        if fam == "pairx":
            return var[0] + var[1]
        if fam == "strlist":
            return sum(var[1])
        if fam == "neststr":
            return sum(sum(x) for x in var)
        if fam == "leaf":
            return var[3] or 0
        return 0

    maxlen = 3 if tier == "quick" else 4
    text_families = ("pair", "paird", "pairx", "strlist", "neststr")
    for fam, vs in VARIANTS.items():
        for i in range(len(vs)):
            for j in range(i, len(vs)):
                if strtotal(fam, vs[i]) > maxlen or strtotal(fam, vs[j]) > maxlen:
                    continue
                if tier == "quick" and fam not in text_families and not (j - i <= 1 or (i + j) % 5 == 0):
                    # quick: neighbours + a sample; thorough: all pairs
                    continue
                add(fam, i, fam, j)
    # cross-family pairs: a value moved to another kind of container
    cross = [("strlist", 2, "pair", 1), ("strlist", 4, "pair", 3), ("intlist", 1, "nestedint", 2), ("intlist", 2, "nestedint", 3),
             ("dict", 1, "dict2", 10), ("dict", 4, "dict2", 3), ("leaf", 0, "const", 1), ("objlist", 1, "node", 0), ("strlist", 4, "neststr", 2),
             ("taskout", 0, "node", 0), ("leaf", 5, "pair", 1)]
    for (fa, ia, fb, ib) in cross:
        add(fa, ia, fb, ib)
    if tier == "thorough":
        # second pass over the text families with the non-ASCII domain
        for fam in ("pair", "strlist", "neststr"):
            vs = VARIANTS[fam]
            for i in range(len(vs)):
                for j in range(i, len(vs)):
                    if strtotal(fam, vs[i]) > 3 or strtotal(fam, vs[j]) > 3:
                        continue
                    add(fam, i, fam, j, suffix="/unicode", shard={"lo": 0xA0, "hi": 0x110000})
    # negative controls (outside the claimed domain): must be refuted
    add("paird", 2, "paird", 7, suffix="/NEG-control-chars", shard={"lo": 0, "hi": 127}, expect="refute")
    add("paird", 2, "paird", 7, suffix="/printable")
    conds.append({"name": "pair/NEG-dict3", "func": "dict3_control", "shard": {}, "expect": "refute", "timeout": 300})
    return conds


def dict3_control(x: int, y: int) -> bool:
    """Negative control: three-level dicts are outside the claimed domain and
    do collide ({'a': {'b': {'x': 1}}, 'c': {}} vs {'a': {'b': {'x': 1}, 'c': {}}})

    post: _
    """
    import xv.defs.ident_variants as UV

    if not (-(2**63) <= x < 2**63 and -(2**63) <= y < 2**63):
        return True
    A = UV.Deep(ddd={"a": {"b": {"x": x}}, "c": {}})
    B = UV.Deep(ddd={"a": {"b": {"x": y}, "c": {}}})
    return fin(hashing.raw(A.__xpm__.raw_identifier.main) != hashing.raw(B.__xpm__.raw_identifier.main))


def default_hides_task(x: int, y: int) -> bool:
    """Witness of the known finding C03-default-config-hides-producing-task
    (not a registered condition): a task output that is structurally equal to
    the parameter's default configuration is dropped from the hash together
    with its producing task.

    post: _
    """
    import xv.defs.ident as U
    import xv.defs.ident_variants as UV

    if not (-(2**63) <= x < 2**63 and -(2**63) <= y < 2**63) or x == y:
        return True
    a = UV.WithDef(sub=graphs.dry_submit(U.Produce2(x=x, out=U.Out(w=1))))
    b = UV.WithDef(sub=graphs.dry_submit(U.Produce2(x=y, out=U.Out(w=1))))
    c = UV.WithDef()
    ia, ib, ic = (hashing.raw(o.__xpm__.full_identifier.main) for o in (a, b, c))
    rt.note("ids", ia.hex() if rt.concrete() else "", ib.hex() if rt.concrete() else "")
    return fin(ia != ib and ia != ic)
