"""C12 — saving and loading a configuration graph loses nothing.

Real code under symbolic execution: ConfigInformation._outputjsonvalue,
__get_objects__, __collect_objects__, load_objects, _objectFromParameters,
fromParameters; core/serialization.py state_dict / from_state_dict /
json_object. The JSON *text* layer (json.dumps/loads, a C accelerator that
would realise symbolic values) is replaced by a JSON-nativeness check of the
produced structure; save/load through real files is exercised concretely.
"""

from enum import Enum
from pathlib import Path

from xv import rt
from xv.rt import fin, pick
from xv.env import hashing
from xv.harness import graphs

SHARD: dict = {}

INFO = {
    "functions": [
        "core/objects.py:ConfigInformation._outputjsonvalue", "core/objects.py:ConfigInformation.__get_objects__", "core/objects.py:ConfigInformation.__collect_objects__",
        "core/objects.py:ConfigInformation.load_objects", "core/objects.py:ConfigInformation._objectFromParameters", "core/objects.py:ConfigInformation.fromParameters",
        "core/serialization.py:state_dict/json_object/from_state_dict/save/load (save/load: concrete runs)", "core/objects.py:ConfigInformation.tags",
    ],
    "bounds": {
        "quick": {"skeletons": "flat, floats, nested, shared, deep, list, dict, nestedlists, cyc2, cyc3, taskself, taskout, tasklist, pretask", "meta_flag": "None/True/False on a symbolic node", "string_lengths": 1},
        "thorough": {"string_lengths": "0..2"},
    },
    "stubs": ["hashlib.sha256 -> Rec", "inspect.stack -> constant", "json text layer -> structure must be JSON-native (None/bool/int/float/str leaves, str keys); json.loads(json.dumps(x)) == x for such trees is the trusted library contract"],
    "symbolic_data": True,
    "assumptions": ["ints within int64; strings printable ASCII; floats from a finite menu", "Dict parameters have str keys; Path only as a direct parameter type (Dict[int,.] and List[Path] cannot even be identified by the pinned code)"],
    "outside": ["data paths (DataPath / SerializedPath copying)", "classes defined in top-level scripts ('file' entries re-import the file)"],
}


def setup(mode):
    import experimaestro.core.objects as O

    hashing.install(mode)
    O.cprint = lambda *a, **k: None


def json_native(x):
    if x is None or isinstance(x, (bool, int, float, str)):
        return True
    if isinstance(x, list):
        return all(json_native(e) for e in x)
    if isinstance(x, dict):
        return all(isinstance(k, str) and json_native(v) for k, v in x.items())
    return False


KNOWN_SELF_OUTPUT = "C12-task-output-is-own-parameter"


def known(fid):
    import os

    if SHARD.get("ignore_known"):
        return False  # replay of the known finding's own witness
    return fid in os.environ.get("XV_OPEN_FINDINGS", "").split(",")


def self_output_cycle(g):
    """The class of graphs of the known finding: some configuration is both a
    parameter of a task and marked as that task's output"""
    from experimaestro.core.objects import Config

    def reach(x, target, seen):
        if isinstance(x, Config):
            if x is target:
                return True
            if id(x) in seen:
                return False
            seen.add(id(x))
            return any(reach(v, target, seen) for v in x.__xpm__.values.values())
        if isinstance(x, list):
            return any(reach(e, target, seen) for e in x)
        if isinstance(x, dict):
            return any(reach(e, target, seen) for e in x.values())
        return False

    for n in g.nodes:
        t = n.__xpm__.task
        if t is not None and t is not n and any(reach(v, n, set()) for v in t.__xpm__.values.values()):
            return True
    return False


class Iso:
    """Isomorphism check between two configuration graphs (or a graph and its
    instance graph): same classes, same values, same sharing"""

    def __init__(self, instances=False):
        self.fwd = {}
        self.bwd = {}
        self.instances = instances
        self.why = None

    def fail(self, msg):
        if self.why is None:
            self.why = msg
        return False

    def value(self, a, b, where):
        from experimaestro.core.objects import Config

        if a is None or b is None:
            return (a is None and b is None) or self.fail(f"{where}: None mismatch")
        if isinstance(a, Config):
            return self.config(a, b, where)
        if isinstance(a, list):
            if not isinstance(b, list) or len(a) != len(b):
                return self.fail(f"{where}: list mismatch")
            return all(self.value(x, y, f"{where}[{i}]") for i, (x, y) in enumerate(zip(a, b)))
        if isinstance(a, dict):
            if not isinstance(b, dict) or list(a.keys()) != list(b.keys()):
                return self.fail(f"{where}: dict keys mismatch")
            return all(self.value(a[k], b[k], f"{where}[{k}]") for k in a)
        if isinstance(a, Enum) or isinstance(a, Path):
            return (type(a) is type(b) and a == b) or self.fail(f"{where}: {a!r} != {b!r}")
        if type(a) is not type(b) and not (isinstance(a, (int, float)) and isinstance(b, (int, float)) and not isinstance(a, bool) and not isinstance(b, bool) and type(a) == type(b)):
            return self.fail(f"{where}: type {type(a).__name__} != {type(b).__name__}")
        return (a == b) or self.fail(f"{where}: value mismatch")

    def config(self, a, b, where):
        if id(a) in self.fwd:
            return (self.fwd[id(a)] is b) or self.fail(f"{where}: sharing lost")
        if id(b) in self.bwd:
            return self.fail(f"{where}: two configurations merged")
        self.fwd[id(a)] = b
        self.bwd[id(b)] = a
        if self.instances:
            if a.__xpmtype__.objecttype is not type(b):
                return self.fail(f"{where}: instance class {type(b).__name__}")
        elif type(a) is not type(b):
            return self.fail(f"{where}: class {type(a).__name__} != {type(b).__name__}")
        ok = True
        for arg, va in a.__xpm__.xpmvalues():
            if self.instances:
                if not hasattr(b, arg.name):
                    ok = self.fail(f"{where}.{arg.name}: attribute missing on the instance") and ok
                    continue
                vb = getattr(b, arg.name)
            else:
                if arg.name not in b.__xpm__.values:
                    ok = self.fail(f"{where}.{arg.name}: value missing") and ok
                    continue
                vb = b.__xpm__.values[arg.name]
            ok = self.value(va, vb, f"{where}.{arg.name}") and ok
        if not self.instances:
            if a.__xpm__.meta != b.__xpm__.meta:
                ok = self.fail(f"{where}: meta flag {a.__xpm__.meta} -> {b.__xpm__.meta}")
            pa, pb = a.__xpm__.pre_tasks, b.__xpm__.pre_tasks
            if len(pa) != len(pb):
                ok = self.fail(f"{where}: pre-tasks {len(pa)} -> {len(pb)}")
            else:
                for i, (x, y) in enumerate(zip(pa, pb)):
                    ok = self.config(x, y, f"{where}.pre[{i}]") and ok
            ta, tb = a.__xpm__.task, b.__xpm__.task
            if (ta is None) != (tb is None):
                ok = self.fail(f"{where}: task link lost")
            elif ta is not None and ta is not a:
                ok = self.config(ta, tb, f"{where}.task") and ok
        return ok


def roundtrip(
    i0: int, i1: int, i2: int, i3: int, i4: int, i5: int, i6: int, i7: int,
    c0: int, c1: int, c2: int, c3: int,
    s0: int, s1: int, s2: int, s3: int, s4: int, s5: int, s6: int, s7: int,
    meta: int, at: int,
) -> bool:
    """state_dict -> from_state_dict yields an isomorphic graph whose
    recomputed identifiers equal the originals; loaded as instances, the
    values observed equal the configured ones.

    post: _
    """
    import xv.defs.ident as U
    from experimaestro.core.context import SerializationContext
    from experimaestro.core.objects import ConfigInformation
    from experimaestro.core.serialization import state_dict, from_state_dict

    try:
        g = graphs.build(SHARD["sk"], U, graphs.V([i0, i1, i2, i3, i4, i5, i6, i7], [c0, c1, c2, c3], [s0, s1, s2, s3, s4, s5, s6, s7]), SHARD.get("lens"))
    except graphs.Skip:
        return True
    # explicit meta flag on a symbolic node (None / True / False)
    flag = [None, True, False][SHARD["meta"]] if SHARD.get("meta") is not None else [None, True, False][pick(meta, 3)]
    k = pick(at, len(g.nodes))
    if flag is not None:
        if g.nodes[k].__xpm__._sealed or g.nodes[k] is g.root:
            return True
        g.nodes[k].__xpm__.set_meta(flag)
    rt.note("meta", flag, "on node", k)
    ids = [(hashing.raw(n.__xpm__.raw_identifier.main), hashing.raw(n.__xpm__.full_identifier.main)) for n in g.nodes]

    ok = True
    mode = SHARD.get("via", "state_dict")
    if mode == "state_dict":
        state = state_dict(SerializationContext(), g.root)
        if not json_native(state):
            rt.note("FAIL: the state dictionary is not JSON-native")
            ok = False
        loaded = from_state_dict(state)
        inst = from_state_dict(state, as_instance=True)
        if SHARD.get("gens", 1) >= 2:
            # second generation: what was loaded is written and loaded again
            state2 = state_dict(SerializationContext(), loaded)
            if not json_native(state2):
                ok = False
            loaded = from_state_dict(state2)
    else:
        # the parameter-file path: object list, last object is the task
        objects = g.root.__xpm__.__get_objects__([], SerializationContext())
        if not json_native(objects):
            rt.note("FAIL: the object list is not JSON-native")
            ok = False
        loaded = ConfigInformation.fromParameters(objects, as_instance=False, discard_id=True)
        inst = ConfigInformation.fromParameters(objects, as_instance=True)
        if SHARD.get("gens", 1) >= 2:
            objects2 = loaded.__xpm__.__get_objects__([], SerializationContext())
            loaded = ConfigInformation.fromParameters(objects2, as_instance=False, discard_id=True)
    iso = Iso()
    if not iso.config(g.root, loaded, "root"):
        rt.note("FAIL: reloaded graph differs:", iso.why)
        ok = False
    elif known(KNOWN_SELF_OUTPUT) and self_output_cycle(g):
        # known finding (reported separately): identifier clause not asserted
        # for exactly this class of graphs
        pass
    else:
        # identifiers recomputed on the reloaded graph
        for n, (raw, full) in zip(g.nodes, ids):
            m = iso.fwd.get(id(n))
            if m is None:
                continue  # not reachable from the root
            if not (hashing.raw(m.__xpm__.raw_identifier.main) == raw):
                rt.note("FAIL: recomputed raw identifier differs on", type(n).__name__)
                ok = False
            if not (hashing.raw(m.__xpm__.full_identifier.main) == full):
                rt.note("FAIL: recomputed full identifier differs on", type(n).__name__)
                ok = False
    iso2 = Iso(instances=True)
    if not iso2.config(g.root, inst, "root"):
        rt.note("FAIL: instance graph differs:", iso2.why)
        ok = False
    return fin(ok)


def files() -> bool:
    """Concrete complement: save()/load() and params.json through real files
    and the real JSON text layer on one witness per skeleton.

    post: _
    """
    import contextlib
    import json

    ctx = contextlib.nullcontext() if rt.concrete() else rt._notrace()
    with ctx:
        import experimaestro.core.objects as O
        import hashlib
        import xv.defs.ident as U
        from experimaestro import save, load
        from experimaestro.core.objects import setmeta

        O.hashlib = hashlib
        ok = True
        root = rt.scratch_dir()
        for ix, sk in enumerate(sorted(graphs.SKELETONS)):
            v = graphs.V([3, -4, 5, 6, 7, 8, 9, 10], [97, 98, 99, 100], [1, 0, 1, 2, 1, 0, 1, 0])
            g = graphs.build(sk, U, v)
            if len(g.nodes) > 1 and not g.nodes[1].__xpm__._sealed:
                setmeta(g.nodes[1], False)
            d = root / f"s{ix}"
            d.mkdir()
            save(g.root, d)
            text = (d / "definition.json").read_text()
            json.loads(text)
            back = load(d)
            iso = Iso()
            if not iso.config(g.root, back, "root"):
                rt.note("FAIL", sk, iso.why)
                ok = False
            for n in g.nodes:
                if known(KNOWN_SELF_OUTPUT) and self_output_cycle(g):
                    break
                m = iso.fwd.get(id(n))
                if m is not None and m.__xpm__.full_identifier.all != n.__xpm__.full_identifier.all:
                    rt.note("FAIL identifier", sk, type(n).__name__)
                    ok = False
        setup("check" if not rt.concrete() else "replay")
        rt.scratch_cleanup()
    return fin(ok)


def conditions(tier):
    conds = []
    tmo = 300 if tier == "quick" else 1200
    for sk, (_, nstr) in sorted(graphs.SKELETONS.items()):
        for via in ("state_dict", "params"):
            if via == "params" and sk not in ("taskself", "taskout", "tasklist", "pretask", "flat", "shared", "cyc3"):
                continue
            lens_list = [[1] * nstr] if tier == "quick" else [[0] * nstr, [1] * nstr, [2] * nstr]
            if nstr == 0:
                lens_list = [[]]
            for lens in lens_list:
                for mi in (0, 1, 2):
                    if mi and sk in ("flat", "floats", "pair", "nestedlists", "tasklist", "taskself"):
                        continue  # no unsealed sub-configuration to flag
                    shard = {"sk": sk, "via": via, "lens": lens, "small_ints": 1, "meta": mi, "gens": 2 if mi == 0 or tier == "thorough" else 1}
                    if sk == "shared":
                        shard["fixed_sels"] = [1] * 8
                    conds.append({"name": f"roundtrip/{sk}/{via}" + ("-" + "".join(map(str, lens)) if lens else "") + f"/meta{mi}", "func": "roundtrip", "shard": shard, "timeout": tmo})
    conds.append({"name": "files", "func": "files", "shard": {}, "timeout": 300})
    return conds
