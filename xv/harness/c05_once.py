"""C05 — a task configuration is executed at most once per successful result.

(a) duplicates inside one experiment, (b) success markers left by an earlier
experiment run, on the real scheduler over the deterministic environment.
Clause (c) is checked on the task side, where the last guard is: two or
three processes of the same job script run the real TaskRunner.run (turned
into a coroutine that yields where a process blocks on the job lock or runs
the task body) under a symbolic interleaving; whether two schedulers can be
brought to launch the same job twice is not modelled (stated in the evidence).
"""

from xv import rt
from xv.rt import fin, pick
from xv.harness import schedlib
from xv.harness.schedlib import Scenario

SHARD: dict = {}

INFO = {
    "functions": [
        "scheduler/base.py:Scheduler.submit/aio_registerJob", "core/objects.py:ConfigInformation.submit (cached task output)", "scheduler/base.py:Scheduler.aio_submit (done marker short-circuit)",
        "commandline.py:CommandLineJob.aio_process/aio_run", "scheduler/base.py:experiment.__enter__/__exit__", "run.py:TaskRunner.run/cleanup (coroutine form, overlapping processes)",
    ],
    "bounds": {
        "quick": {"jobs": "<=3", "duplicate_submissions": "<=2 (any position, interleaved with the schedule)", "prior_runs": "one earlier experiment run with a symbolic subset of the jobs", "schedule_choice_points": 4},
        "thorough": {"schedule_choice_points": 7},
    },
    "stubs": schedlib.STUBS,
    "symbolic_data": True,
    "assumptions": ["exit codes symbolic", "the earlier run ends before the later one starts (sequential experiments; a process still running at restart is C11's subject)"],
    "outside": schedlib.OUTSIDE + ["the scheduler-side part of clause (c): whether two schedulers can both launch the same job (the check assumes they can and verifies the task-side guard: lock, then success-marker test)"],
}


def setup(mode):
    import logging

    schedlib.setup(mode)
    logging.disable(logging.CRITICAL)
    _coroutine_modules()


def duplicates(
    c0: int, c1: int, c2: int, rev: bool, d0: int, d1: int,
    s0: int, s1: int, s2: int, s3: int, s4: int, s5: int, s6: int, s7: int,
) -> bool:
    """Submitting a configuration identical to one already submitted (and not
    failed) returns the first submission's output and creates no second job.

    post: _
    """
    import experimaestro.scheduler.base as SB

    shape, K = SHARD["shape"], SHARD["K"]
    n = len(schedlib.SHAPES[shape])
    codes = [c0, c1, c2][:n]
    prog = [("submit", i) for i in range(n)]
    # duplicates inserted after the first submission of the same job, at
    # positions chosen by the shard; which job is duplicated is symbolic
    dup_jobs = [pick(d0, n), pick(d1, n)][: SHARD.get("ndup", 1)]
    for j, pos in zip(dup_jobs, SHARD["positions"]):
        at = max(pos, j + 1)
        prog.insert(min(at, len(prog)), ("dup", j))
    prog.append(("wait",))
    sc = Scenario(shape, codes, rev=rev)
    sc.start(program=prog)
    sc.run([s0, s1, s2, s3, s4, s5, s6, s7], K, prefix=SHARD.get("prefix") or ())
    if sc.harness_errors():
        raise RuntimeError(str(sc.harness_errors())[:300])
    ok = True
    deps = schedlib.SHAPES[shape]

    def can_fail(i):
        # the job fails by itself or is cancelled by a failed ancestor: a
        # later identical submission is then a legitimate re-submission
        return codes[i] != 0 or any(codes[j] != 0 for j in schedlib.transitive_deps(deps, i))

    for (i, cfg, out) in sc.dups:
        first = sc.jobs[i]
        if out is not sc.outputs[i] and not can_fail(i):
            rt.note("FAIL: duplicate of a non-failed job did not return the first submission's output")
            ok = False
        if cfg.__xpm__.job is not first and cfg.__xpm__.job in sc.xp.scheduler.jobs.values() and not can_fail(i):
            rt.note("FAIL: duplicate of a non-failed job was registered")
            ok = False
    for i in range(n):
        nl = len(sc.launches(i)) + len(sc.launches(("dup", i)))
        if not can_fail(i) and nl > 1:
            rt.note(f"FAIL: job {i} launched {nl} times although it succeeded")
            ok = False
    if len(sc.xp.scheduler.jobs) != n:
        rt.note(f"FAIL: {len(sc.xp.scheduler.jobs)} jobs registered for {n} distinct configurations")
        ok = False
    if sc.hung or sc.deadlock:
        ok = False
    sc.finish()
    rt.scratch_cleanup()
    return fin(ok)


def resubmitted(c0: int, c1: int, rev: bool, s0: int, s1: int, s2: int, s3: int, s4: int, s5: int, s6: int, s7: int) -> bool:
    """A job fails, is submitted again (legitimate re-submission), and the
    same configuration is submitted a third time while the re-submission is
    running or done: the third submission returns the second one's output and
    creates no job.

    post: _
    """
    import experimaestro.scheduler.base as SB

    K = SHARD["K"]
    if c0 == 0:
        return True  # the first submission must fail
    sc = Scenario("one", [c0], rev=rev)
    sc.recodes = [c1]
    sc.start(program=[("submit", 0), ("resubmit", 0), ("redup", 0), ("wait",)])
    sc.run([s0, s1, s2, s3, s4, s5, s6, s7], K)
    if sc.harness_errors():
        raise RuntimeError(str(sc.harness_errors())[:300])
    ok = True
    if not sc.re_jobs:
        return True
    second = sc.re_jobs[0]
    for (key, cfg, out) in sc.dups:
        third = cfg.__xpm__.job
        if c1 == 0:
            # the re-submission cannot fail: the third submission is a duplicate of it
            if out is not sc.re_outputs[0]:
                rt.note("FAIL: the duplicate of a re-submitted (non-failed) job did not return its output")
                ok = False
            if sc.xp.scheduler.jobs.get(second.identifier) is not second:
                rt.note("FAIL: the duplicate replaced the re-submitted job in the registry")
                ok = False
            if len(sc.launches(("redup", 0))) != 0:
                rt.note("FAIL: the duplicate was launched")
                ok = False
    if sc.hung or sc.deadlock:
        ok = False
    sc.finish()
    rt.scratch_cleanup()
    return fin(ok)


def prior_run(
    c0: int, c1: int, c2: int, rev: bool, p0: bool, p1: bool, p2: bool,
    s0: int, s1: int, s2: int, s3: int, s4: int, s5: int, s6: int, s7: int,
) -> bool:
    """A job whose success marker was left by an earlier experiment is never
    launched again; its dependents run.

    post: _
    """
    import experimaestro.scheduler.base as SB

    shape, K = SHARD["shape"], SHARD["K"]
    deps = schedlib.SHAPES[shape]
    n = len(deps)
    codes = [c0, c1, c2][:n]
    prior = [p0, p1, p2][:n]
    if SHARD.get("prior") is not None:
        prior = [bool(b) for b in SHARD["prior"]][:n]  # enumerated by the shard
    # the earlier run executes the whole plan; the job directories of the
    # jobs that are not in `prior` are then removed (cleaned workspace), so
    # that any subset of success markers can pre-exist - including a job
    # whose marker exists while the marker of its dependency does not
    first = Scenario(shape, [0] * n)
    first.start(name=SHARD.get("first_name", "x"), program=[("submit", i) for i in range(n)] + [("wait",)])
    first.run([], 0)
    first.finish()
    w = first.w
    import shutil

    for i in range(n):
        if first.jobs[i] is None or first.jobs[i].state != SB.JobState.DONE:
            raise RuntimeError("harness: the earlier run did not complete")
        if not prior[i]:
            with rt._notrace():
                shutil.rmtree(first.jobs[i].path, ignore_errors=True)
    sc = Scenario(shape, codes, rev=rev)
    sc.start(world=w, name="x")
    sc.run([s0, s1, s2, s3, s4, s5, s6, s7], K, prefix=SHARD.get("prefix") or ())
    if sc.harness_errors():
        raise RuntimeError(str(sc.harness_errors())[:300])
    ok = True
    for i in range(n):
        nl = len(sc.launches(i))
        job = sc.jobs[i]
        if prior[i]:
            if nl != 0:
                rt.note(f"FAIL: job {i} launched again although its success marker existed")
                ok = False
            if job is None or job.state != SB.JobState.DONE:
                rt.note(f"FAIL: job {i} with a success marker ends {job.state if job else None}")
                ok = False
        else:
            # like C06/C07: its own code decides, unless a dependency failed; a
            # dependency whose marker pre-exists is done, whatever lies behind it
            def failed(j):
                if prior[j]:
                    return False
                return codes[j] != 0 or any(failed(k) for k in deps[j])

            anc_failed = any(failed(j) for j in deps[i])
            expect = SB.JobState.DONE if (not anc_failed and codes[i] == 0) else SB.JobState.ERROR
            if job is None or job._future is None or not job._future.task.done() or job.state != expect:
                rt.note(f"FAIL: job {i} ends {job.state if job else None}, expected {expect}")
                ok = False
            if nl != (0 if anc_failed else 1):
                rt.note(f"FAIL: job {i} launched {nl} times")
                ok = False
    if sc.hung or sc.deadlock:
        ok = False
    sc.finish()
    rt.scratch_cleanup()
    return fin(ok)


def conditions(tier):
    conds = []
    K = 4 if tier == "quick" else 5
    tmo = 600 if tier == "quick" else 3000
    for sh in ("one", "chain2", "indep2"):
        n = len(schedlib.SHAPES[sh])
        for pos in range(1, n + 2):
            if tier == "quick" and sh == "indep2" and pos == 2:
                continue
            c = {"name": f"duplicates/{sh}/at{pos}", "func": "duplicates", "shard": {"shape": sh, "K": K, "positions": [pos], "ndup": 1}, "timeout": tmo}
            conds.extend(schedlib.with_prefixes(c, 2) if sh == "indep2" else [c])
    conds.append({"name": "duplicates/chain2/two", "func": "duplicates", "shard": {"shape": "chain2", "K": K, "positions": [1, 3], "ndup": 2}, "timeout": tmo})
    for sh in ("one", "chain2", "chain3", "join3") if tier == "quick" else ("one", "chain2", "chain3", "fork3", "join3"):
        n = len(schedlib.SHAPES[sh])
        if n < 3:
            conds.append({"name": f"prior/{sh}", "func": "prior_run", "shard": {"shape": sh, "K": K}, "timeout": tmo})
            continue
        for m in range(1, 2 ** n):
            pr = [(m >> i) & 1 for i in range(n)]
            conds.append({"name": f"prior/{sh}/m{''.join(map(str, pr))}", "func": "prior_run", "shard": {"shape": sh, "K": K, "prior": pr}, "timeout": tmo})
    conds.append({"name": "resubmitted/one", "func": "resubmitted", "shard": {"K": K + 2}, "timeout": tmo})
    conds.append({"name": "overlap/two", "func": "overlap", "shard": {"procs": 2}, "timeout": tmo})
    conds.append({"name": "overlap/three", "func": "overlap", "shard": {"procs": 3}, "timeout": tmo})
    conds.append({"name": "prior/chain2-other-experiment", "func": "prior_run", "shard": {"shape": "chain2", "K": K, "first_name": "earlier"}, "timeout": tmo})
    return conds


# ---------------------------------------------------------------- clause (c), task side: overlapping launches of one job script


class _P:
    """One job process running the real TaskRunner.run in coroutine form"""

    def __init__(self, pid, M, locks, script):
        self.pid, self.M, self.locks = pid, M, locks
        self.state = "new"  # new / blocked / body / exited
        self.gen = None
        self.pending_lock = None
        self.atexit = []
        self.status = None
        proc = self

        class FakeLock:
            def __init__(self, path):
                self.path = str(path)
                self.acquired = False

            def release(self):
                if proc.locks.get(self.path) == proc.pid:
                    del proc.locks[self.path]
                self.acquired = False

        class FakeFasteners:
            InterProcessLock = FakeLock

        class FakeSignal:
            SIGTERM, SIGINT = 15, 2

            @staticmethod
            def signal(s, h):
                return None

        class FakeAtexit:
            @staticmethod
            def register(f):
                proc.atexit.append(f)

            @staticmethod
            def unregister(f):
                proc.atexit = [g for g in proc.atexit if g != f]

        class FakeOs:
            chdir = staticmethod(lambda p: None)
            getpid = staticmethod(lambda: pid)
            register_at_fork = staticmethod(lambda **kw: None)

        M.__dict__.update(fasteners=FakeFasteners, signal=FakeSignal, atexit=FakeAtexit, os=FakeOs, report_eoj=lambda: None)
        self.runner = M.TaskRunner(str(script), [str(script.with_suffix(".lock"))])

    def _drive(self, send=None, throw=None):
        """Advances the runner to its next blocking point"""
        try:
            if self.gen is None:
                self.gen = self.runner.run()
                req = next(self.gen)
            elif throw is not None:
                req = self.gen.throw(throw)
            else:
                req = self.gen.send(send)
        except StopIteration:
            return self._end(0)
        except SystemExit as e:
            return self._end(e.code if isinstance(e.code, int) else 1)
        except Exception:
            return self._end(1)
        if req[0] == "acquire":
            self.state, self.pending_lock = "blocked", req[1]
        else:
            self.state = "body"

    def _end(self, status):
        for f in list(reversed(self.atexit)):
            try:
                f()
            except SystemExit:
                pass
        for p in [p for p, o in self.locks.items() if o == self.pid]:
            del self.locks[p]
        self.state, self.status = "exited", status

    def can_step(self):
        if self.state == "new" or self.state == "body":
            return True
        if self.state == "blocked":
            o = self.locks.get(self.pending_lock.path)
            return o is None or o == self.pid
        return False

    def step(self, outcome):
        if self.state == "new":
            self._drive()
        elif self.state == "blocked":
            self.locks[self.pending_lock.path] = self.pid
            self.pending_lock.acquired = True
            self._drive(send=True)
        elif self.state == "body":
            if outcome == 0:
                self._drive(send=None)
            else:
                self._drive(throw=ValueError("task failed"))


def overlap(pre_done: bool, o1: int, o2: int, o3: int, s0: int, s1: int, s2: int, s3: int, s4: int, s5: int, s6: int, s7: int, s8: int) -> bool:
    """Two (or three) processes of the same job script, started at any time
    relative to each other: the task body never runs twice at the same time
    and is not run again after it succeeded.

    post: _
    """
    from xv.harness import c10_markers as M10

    n = SHARD.get("procs", 2)
    root = rt.scratch_dir()
    with rt._notrace():
        (root / "job").mkdir(parents=True)
        script = root / "job" / "task.py"
        done = script.with_suffix(".done")
        if pre_done:
            done.touch()
    locks = {}
    mods = _MODS[:n]
    procs = [_P(100 + i, mods[i], locks, script) for i in range(n)]
    outcomes = [pick(o1, 2), pick(o2, 2), pick(o3, 2)][:n]
    choices = [s0, s1, s2, s3, s4, s5, s6, s7, s8]
    ok = True
    succeeded = bool(pre_done)
    k = 0
    steps = 0
    while steps < 40:
        en = [p for p in procs if p.can_step()]
        if not en:
            break
        if len(en) > 1 and k < len(choices):
            p = en[pick(choices[k], len(en))]
            k += 1
        else:
            p = en[0]
        was = p.state
        p.step(outcomes[procs.index(p)])
        steps += 1
        if p.state == "body" and was != "body":
            # a body starts
            if sum(1 for q in procs if q.state == "body") > 1:
                rt.note("FAIL: the task body runs twice at the same time")
                ok = False
            if succeeded:
                rt.note("FAIL: the task body runs again after the job succeeded")
                ok = False
        if was == "body" and p.state == "exited" and p.status == 0:
            succeeded = True
        rt.note(f"step {p.pid}: {was} -> {p.state}")
    if any(p.state != "exited" for p in procs):
        rt.note("FAIL: a process never ends", [p.state for p in procs])
        ok = False
    if done.is_file() and not succeeded:
        ok = False
    rt.scratch_cleanup()
    return fin(ok)


_MODS = []


def _coroutine_modules():
    from xv.harness import c10_markers as M10

    while len(_MODS) < 3:
        _MODS.append(M10.build_coroutine_module())
