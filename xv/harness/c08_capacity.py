"""C08 — jobs running under a token never hold more than its capacity."""

from xv import rt
from xv.rt import fin
from xv.harness import schedlib

SHARD: dict = {}

INFO = {
    "functions": [
        "tokens.py:ProcessCounterToken.acquire/release", "tokens.py:CounterToken.acquire/release/_update", "tokens.py:TokenFile.create/delete",
        "tokens.py:CounterTokenDependency.status", "tokens.py:CounterTokenLock", "tokens.py:Token.aio_notify", "locking.py:Locks",
        "scheduler/base.py:Scheduler.aio_start (dependencyLock section, LockError abort)", "scheduler/base.py:Job.dependencychanged",
    ],
    "bounds": {
        "quick": {"two_processes": "two schedulers (own experiment, loop and CounterToken instance) on one token directory, one job each, counts enumerated (total 3 requests 2+2; total 1 requests 1+1), watcher notifications of the other process's changes delivered at symbolic times", "jobs": "<=3", "in_process_token": "total and requests symbolic (unbounded ints)", "file_token": "one scheduler instance, totals/requests enumerated 1<=r<=total<=3 (they are written to files)", "schedule_choice_points": 6},
        "thorough": {"jobs": "<=4", "file_token": "total<=3, one scheduler instance", "schedule_choice_points": 5},
    },
    "stubs": schedlib.STUBS + ["ipc.ipcom().fswatch -> recorded (no watcher event is delivered in the single-instance model: the instance's own releases update its state synchronously)", "threading.Thread in tokens (TokenFile.watch) -> external event"],
    "symbolic_data": True,
    "assumptions": ["1 <= request <= total", "exit codes symbolic", "file token: counts concrete per shard because a symbolic value cannot cross a file write"],
    "outside": schedlib.OUTSIDE + ["more than two scheduler processes; races between the watchdog thread and the loop thread at statement level; real inotify coalescing; a token file observed half-written"],
}


def setup(mode):
    schedlib.setup(mode)


def capacity(
    total: int, r0: int, r1: int, r2: int, r3: int,
    c0: int, c1: int, c2: int, c3: int,
    rev: bool,
    s0: int, s1: int, s2: int, s3: int, s4: int, s5: int, s6: int, s7: int, s8: int, s9: int,
    total2: int, q0: int, q1: int, q2: int, q3: int,
) -> bool:
    """After every step, the requests of the jobs whose process is running sum
    to at most the token's total (and so do the counts recorded on disk).

    post: _
    """
    if SHARD.get("token_kind") == "file":
        # counts are written to token.info / *.token files: concrete per shard
        total = SHARD["total"]
        r0, r1, r2, r3 = (SHARD["reqs"] + [1, 1, 1, 1])[:4]
    sc = schedlib.drive(SHARD, total, [r0, r1, r2, r3], [c0, c1, c2, c3], rev, [s0, s1, s2, s3, s4, s5, s6, s7, s8, s9], total2=total2, rs2=[q0, q1, q2, q3])
    if sc is None:
        return True
    ok = not any("capacity" in v for v in sc.violations)
    if not ok:
        rt.note("FAIL: capacity exceeded", sc.violations)
    # every job under the token that could run did run (sanity of the scenario)
    if sc.hung:
        ok = False
    sc.finish()
    rt.scratch_cleanup()
    return fin(ok)


def multi(
    c0: int, c1: int, rev: bool,
    s0: int, s1: int, s2: int, s3: int, s4: int, s5: int, s6: int, s7: int,
) -> bool:
    """Two scheduler processes sharing the token directory: whatever the
    delivery order of filesystem notifications, exits and helper threads, the
    running jobs never hold more than the total (neither by the requests of
    running jobs nor by the counts recorded in the token files).

    post: _
    """
    A, B = schedlib.duo(SHARD, c0, c1, rev, [s0, s1, s2, s3, s4, s5, s6, s7])
    ok = not A.violations and not B.violations
    if not ok:
        rt.note("FAIL:", A.violations + B.violations)
    if A.hung or B.hung:
        ok = False
    rt.scratch_cleanup()
    return fin(ok)


def _filecombos(n, maxtotal):
    out = []
    for total in range(1, maxtotal + 1):
        def rec(prefix):
            if len(prefix) == n:
                out.append((total, list(prefix)))
                return
            for r in range(1, total + 1):
                rec(prefix + [r])
        rec([])
    return out


def conditions(tier):
    conds = []
    K = 4 if tier == "quick" else 5
    tmo = 600 if tier == "quick" else 3000
    shapes = [("indep2", [1, 1]), ("chain2", [1, 1]), ("mixed3", [1, 0, 1])]
    if tier == "thorough":
        shapes += [("join3", [1, 1, 1]), ("indep3", [1, 1, 1]), ("fork3", [1, 1, 1]), ("diamond4", [1, 1, 1, 1]), ("two2", [1, 1, 1, 1])]
    for sh, mask in shapes:
        conds.append({"name": f"process/{sh}-{''.join(map(str, mask))}", "func": "capacity", "shard": {"shape": sh, "K": K, "token": mask}, "timeout": tmo})
    # two tokens: a job needing both can take one and fail on the other
    two = [("indep2", [1, 1], [1, 1])] if tier == "quick" else [("indep2", [1, 1], [1, 0]), ("indep2", [1, 1], [1, 1]), ("indep3", [1, 1, 0], [1, 0, 1]), ("indep3", [1, 1, 1], [1, 1, 1]), ("chain3", [1, 1, 1], [0, 1, 1])]
    for sh, m1, m2 in two:
        conds.append({"name": f"two-tokens/{sh}-{''.join(map(str, m1))}-{''.join(map(str, m2))}", "func": "capacity", "shard": {"shape": sh, "K": K, "token": m1, "token2": m2}, "timeout": tmo})
    for total, reqs in _filecombos(2, 3 if tier == "thorough" else 2) + ([] if tier == "quick" else []):
        conds.append({"name": f"file/indep2-t{total}r{''.join(map(str, reqs))}", "func": "capacity", "shard": {"shape": "indep2", "K": K, "token": [1, 1], "token_kind": "file", "total": total, "reqs": reqs}, "timeout": tmo})
    if tier == "thorough":
        conds.append({"name": "file/indep3-t2r111", "func": "capacity", "shard": {"shape": "indep3", "K": K, "token": [1, 1, 1], "token_kind": "file", "total": 2, "reqs": [1, 1, 1]}, "timeout": tmo})
    for total, reqs in ((3, [2, 2]),) if tier == "quick" else _filecombos(2, 3):
        c = {"name": f"multi/t{total}r{''.join(map(str, reqs))}", "func": "multi", "shard": {"total": total, "reqs": reqs, "K": 4 if tier == "quick" else 5, "multi": 1}, "timeout": tmo}
        conds.extend(schedlib.with_prefixes(c, 2))
    c = {"name": "multi-observer/t1r1", "func": "multi", "shard": {"total": 1, "reqs": [1, 1], "K": 4 if tier == "quick" else 6, "multi": 1, "observer": 1}, "timeout": tmo}
    conds.extend(schedlib.with_prefixes(c, 2))
    conds.append({"name": "file/indep2-t3r21", "func": "capacity", "shard": {"shape": "indep2", "K": K, "token": [1, 1], "token_kind": "file", "total": 3, "reqs": [2, 1]}, "timeout": tmo})
    heavy = ("indep2", "join3", "indep3", "mixed3", "diamond4", "fork3", "two2")
    out = []
    for c in conds:
        if c["shard"].get("multi"):
            out.append(c)
        elif c["shard"].get("token2"):
            out.extend(schedlib.with_prefixes(c, 2 if tier == "quick" else 3))
        elif c["shard"].get("shape") in heavy and c["shard"].get("token_kind") != "file":
            out.extend(schedlib.with_prefixes(c, 3 if c["shard"].get("shape") in ("indep3", "diamond4", "two2") else 2))
        else:
            out.append(c)
    return out
