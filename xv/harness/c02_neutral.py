"""C02 — the identifier ignores everything documented as outside the signature.

Metamorphic harness: the same graph is built twice from the same symbolic
leaves; a signature-neutral edit is applied to the second copy at a symbolic
node / position; the hashed streams of every node must coincide.
"""

from pathlib import Path

from xv import rt
from xv.rt import fin, pick
from xv.env import hashing
from xv.harness import graphs

SHARD: dict = {}

EDITS = ["meta_in_nested_containers", "explicit_default", "explicit_none", "meta_value", "meta_subconfig", "meta_subconfig_content", "tag", "token_dependency", "other_context", "meta_in_containers"]

INFO = {
    "functions": [
        "core/objects.py:HashComputer.update (argument loop: ignored / generated / default / meta)", "core/objects.py:is_ignored", "core/objects.py:remove_meta",
        "core/objects.py:ConfigInformation.set_meta/addtag/add_dependencies/seal", "core/objects.py:ConfigInformation.submit (DRY_RUN: launcher / workspace variants)",
        "core/types.py:PathType.ignore", "core/arguments.py:Argument.__init__ (ignored, generator, default flags)", "generators.py:PathGenerator.__call__",
    ],
    "bounds": {
        "quick": {"skeletons": "flat, nested, shared, deep, list, dict, cyc2, taskself, taskout, pretask", "edits": EDITS + ["submit variants (workspace, launcher)", "class extended with defaulted/optional/Meta/generated parameters"], "edit_position": "any node of the graph (symbolic selector)", "string_lengths": "1"},
        "thorough": {"string_lengths": "0..2", "edits": "also pairs of edits"},
    },
    "stubs": ["hashlib.sha256 -> Rec (stream equality)", "inspect.stack -> constant", "cprint -> no-op", "floats from a concrete menu, dict keys concrete"],
    "symbolic_data": True,
    "assumptions": ["ints within int64, strings printable ASCII", "sha256 collision-free"],
    "outside": ["__validate__ side effects", "user-defined generators other than PathGenerator", "run modes needing a live experiment (GENERATE_ONLY/NORMAL) for the submit-variant edit"],
}


def setup(mode):
    import experimaestro.core.objects as O

    hashing.install(mode)
    O.cprint = lambda *a, **k: None


def _apply(edit, nd, U, z, which):
    """Applies a neutral edit on node nd of the second copy; returns False
    when the edit does not apply to this kind of node"""
    from experimaestro.core.objects import clone, setmeta
    from experimaestro.tokens import ProcessCounterToken

    xt = nd.__xpmtype__
    if edit == "explicit_default":
        done = False
        for name, a in xt.arguments.items():
            if a.default is not None and not a.constant and a.generator is None and nd.__xpm__.values.get(name) == a.default:
                setattr(nd, name, clone(a.default))
                done = True
        return done
    if edit == "explicit_none":
        done = False
        for name, a in xt.arguments.items():
            if (not a.required) and a.default is None and a.generator is None and nd.__xpm__.values.get(name) is None:
                setattr(nd, name, None)
                done = True
        return done
    if edit == "meta_value":
        if "m" in xt.arguments:
            nd.m = z
            return True
        if "aux" in xt.arguments:
            nd.aux = U.Leaf(i=z)
            return True
        return False
    if edit in ("meta_subconfig", "meta_subconfig_content"):
        # a configuration flagged meta in a signature position
        if "other" in xt.arguments and nd.__xpm__.values.get("other") is None:
            nd.other = setmeta(U.Leaf(i=z), True)
            return True
        if "leaf" in xt.arguments and nd.__xpm__.values.get("leaf") is None:
            nd.leaf = setmeta(U.Leaf(i=z), True)
            return True
        return False
    if edit == "meta_in_containers":
        if "xs" in xt.arguments:
            nd.xs = list(nd.xs) + [setmeta(U.Leaf(i=z), True)]
            d = dict(nd.d)
            d["zz"] = setmeta(U.Leaf(i=z), True)
            nd.d = d
            return True
        return False
    if edit == "meta_in_nested_containers":
        if "dl" in xt.arguments and nd.__xpm__.values.get("dl"):
            dl = {k: list(v) for k, v in nd.dl.items()}
            dl["a"] = dl["a"] + [setmeta(U.Leaf(i=z), True)]
            nd.dl = dl
            nd.lls = [list(x) for x in nd.lls] + [[setmeta(U.Leaf(i=z), True)]]
            lls = [list(x) for x in nd.lls]
            lls[0] = [setmeta(U.Leaf(i=z), True)] + lls[0]
            nd.lls = lls[:-1]
            ld = [dict(x) for x in nd.ld]
            ld[0]["zz"] = setmeta(U.Leaf(i=z), True)
            nd.ld = ld
            return True
        return False
    if edit == "tag":
        nd.tag("t", z)
        return True
    if edit == "token_dependency":
        nd.add_dependencies(ProcessCounterToken(2).dependency(1))
        return True
    raise KeyError(edit)


def neutral(
    i0: int, i1: int, i2: int, i3: int, i4: int, i5: int, i6: int, i7: int,
    c0: int, c1: int, c2: int, c3: int,
    s0: int, s1: int, s2: int, s3: int, s4: int, s5: int, s6: int, s7: int,
    z: int, at: int,
) -> bool:
    """A signature-neutral edit at any node leaves every identifier unchanged.

    post: _
    """
    import xv.defs.ident as U
    from experimaestro.xpmutils import DirectoryContext

    sk, edit = SHARD["sk"], SHARD["edit"]
    ints, codes, sels = [i0, i1, i2, i3, i4, i5, i6, i7], [c0, c1, c2, c3], [s0, s1, s2, s3, s4, s5, s6, s7]
    if not (-(2**63) <= z < 2**63):
        return True
    try:
        g1 = graphs.build(sk, U, graphs.V(ints, codes, sels), SHARD.get("lens"))
        graphs.VARIANT[0] = SHARD.get("submit_variant")
        g2 = graphs.build(sk, U, graphs.V(ints, codes, sels), SHARD.get("lens"))
    except graphs.Skip:
        return True
    finally:
        graphs.VARIANT[0] = None
    n = len(g2.nodes)
    if edit == "other_context":
        g1.root.__xpm__.seal(DirectoryContext(Path("/ctx/one")))
        g2.root.__xpm__.seal(DirectoryContext(Path("/ctx/two/deeper")))
    elif edit == "meta_subconfig_content":
        # both copies hold a meta-flagged sub-configuration, with different content
        k = pick(at, n)
        if g2.nodes[k].__xpm__._sealed or not _apply("meta_subconfig", g2.nodes[k], U, z, 0):
            return True
        _apply("meta_subconfig", g1.nodes[k], U, 5, 0)
    elif edit != "none":
        k = pick(at, n)
        if g2.nodes[k].__xpm__._sealed:
            return True  # submitted tasks are frozen (C14)
        if not _apply(edit, g2.nodes[k], U, z, 0):
            return True
        rt.note("edit", edit, "at node", k, type(g2.nodes[k]).__name__)
    ok = True
    for a, b in zip(g1.nodes, g2.nodes):
        if not (hashing.raw(a.__xpm__.raw_identifier.main) == hashing.raw(b.__xpm__.raw_identifier.main)):
            rt.note("FAIL: raw identifier changed on", type(a).__name__)
            ok = False
        if not (hashing.raw(a.__xpm__.full_identifier.main) == hashing.raw(b.__xpm__.full_identifier.main)):
            rt.note("FAIL: full identifier changed on", type(a).__name__)
            ok = False
    return fin(ok)


class _ExtUniverse:
    """ident universe with Leaf/Node replaced by their extended variants"""

    def __init__(self):
        import xv.defs.ident as U
        import xv.defs.ident_variants as UV

        self.__dict__.update({k: getattr(U, k) for k in dir(U) if not k.startswith("_")})
        self.Leaf = UV.LeafExt
        self.Node = UV.NodeExt
        self.Top = UV.TopExt


def class_edit(
    i0: int, i1: int, i2: int, i3: int, i4: int, i5: int, i6: int, i7: int,
    c0: int, c1: int, c2: int, c3: int,
    s0: int, s1: int, s2: int, s3: int, s4: int, s5: int, s6: int, s7: int,
) -> bool:
    """Adding defaulted / optional / Meta / generated parameters to a class
    leaves the identifiers of existing configurations unchanged.

    post: _
    """
    import xv.defs.ident as U

    ints, codes, sels = [i0, i1, i2, i3, i4, i5, i6, i7], [c0, c1, c2, c3], [s0, s1, s2, s3, s4, s5, s6, s7]
    try:
        g1 = graphs.build(SHARD["sk"], U, graphs.V(ints, codes, sels), SHARD.get("lens"))
        g2 = graphs.build(SHARD["sk"], _ExtUniverse(), graphs.V(ints, codes, sels), SHARD.get("lens"))
    except graphs.Skip:
        return True
    ok = True
    for a, b in zip(g1.nodes, g2.nodes):
        if not (hashing.raw(a.__xpm__.full_identifier.main) == hashing.raw(b.__xpm__.full_identifier.main)):
            rt.note("FAIL: identifier changed by the class extension on", type(a).__name__)
            ok = False
    return fin(ok)


def conditions(tier):
    conds = []
    sks = ["flat", "nested", "shared", "deep", "list", "dict", "cyc2", "pretask", "nestedcont", "marker"]
    tmo = 300 if tier == "quick" else 1200
    for sk in sks:
        nstr = graphs.SKELETONS[sk][1]
        for edit in EDITS:
            if edit == "meta_in_containers" and sk not in ("list", "dict"):
                continue
            if edit == "meta_in_nested_containers" and sk != "nestedcont":
                continue
            if sk in ("nestedcont", "marker") and edit not in ("meta_in_nested_containers", "tag", "token_dependency", "other_context", "explicit_default"):
                continue
            if edit in ("meta_subconfig", "meta_subconfig_content") and sk not in ("nested", "shared", "deep"):
                continue
            if edit == "meta_value" and sk in ("cyc2", "pretask"):
                continue  # these classes have no Meta parameter
            if edit == "meta_value" and sk in ("list", "dict") and tier == "quick":
                continue
            # optional positions left unset when the edit needs a free slot
            fs = [0] * 8 if edit in ("explicit_none", "meta_subconfig", "meta_subconfig_content") else [1] * 8
            conds.append({"name": f"neutral/{sk}/{edit}", "func": "neutral", "shard": {"sk": sk, "edit": edit, "lens": [1] * nstr, "fixed_sels": fs, "small_ints": 2}, "timeout": tmo})
    for sk in ("taskself", "taskout", "tasklist"):
        for sv in ("workspace", "launcher"):
            conds.append({"name": f"neutral/{sk}/submit-{sv}", "func": "neutral", "shard": {"sk": sk, "edit": "none", "submit_variant": sv, "small_ints": 2}, "timeout": tmo})
        conds.append({"name": f"neutral/{sk}/tag-consumer", "func": "neutral", "shard": {"sk": sk, "edit": "tag", "small_ints": 2}, "timeout": tmo})
    for sk in ("flat", "nested", "shared", "deep"):
        nstr = graphs.SKELETONS[sk][1]
        conds.append({"name": f"class_edit/{sk}", "func": "class_edit", "shard": {"sk": sk, "lens": [1] * nstr, "small_ints": 2}, "timeout": tmo})
    return conds
