"""C20 — deprecating a class keeps identifiers and makes old results reachable."""

import contextlib
import io
import os
from pathlib import Path

from xv import rt
from xv.rt import fin, pick
from xv.env import hashing
from xv.harness import graphs

SHARD: dict = {}

INFO = {
    "functions": [
        "core/types.py:ObjectType.deprecate", "annotations.py:deprecate", "core/objects.py:HashComputer.update (type identifier)", "tools/jobs.py:fix_deprecated", "tools/jobs.py:load_job",
        "core/objects.py:ConfigInformation.fromParameters(discard_id=True)", "commandline.py:CommandParameters/CommandLineJob.prepare (GENERATE_ONLY, to create the job directories)",
    ],
    "bounds": {
        "quick": {"identifier_part": "skeletons flat, nested, shared, deep, list, dict, taskself, taskout with Leaf / Node / Produce / Out replaced by deprecated subclasses (all 15 subsets of the four classes)", "repair_part": "2 job directories recorded under former identifiers; per job: plain / already linked / dangling link / already moved (symbolic); fix and cleanup flags symbolic; the command is run twice"},
        "thorough": {"repair_part": "3 job directories"},
    },
    "stubs": ["identifier part: sha256 -> Rec, inspect.stack -> constant", "repair part: real sha256 and real files on a scratch workspace; scheduler environment of xv/env/sched.py only to enter an experiment in GENERATE_ONLY mode"],
    "symbolic_data": True,
    "assumptions": ["ints within int64, strings printable", "the repair harness explores selectors (workspace layouts, flags); the hashed values are concrete"],
    "outside": ["deprecated attributes (DeprecatedAttribute)", "tasks whose output is one of their own parameters (known finding C12-task-output-is-own-parameter: their recomputed identifier differs, so fix_deprecated would treat them as renamed)"],
}


def setup(mode):
    import experimaestro.core.objects as O

    if SHARD.get("real_hash"):
        from xv.harness import schedlib

        schedlib.setup(mode)
        hashing.install("replay")
    else:
        hashing.install(mode)
    O.cprint = lambda *a, **k: None


def same_identifier(
    i0: int, i1: int, i2: int, i3: int, i4: int, i5: int, i6: int, i7: int,
    c0: int, c1: int, c2: int, c3: int,
    s0: int, s1: int, s2: int, s3: int, s4: int, s5: int, s6: int, s7: int,
) -> bool:
    """A graph built with deprecated classes at any position has, node by
    node, the identifiers of the same graph built with their replacements.

    post: _
    """
    import xv.defs.ident as U
    from xv.defs import deprec

    ints, codes, sels = [i0, i1, i2, i3, i4, i5, i6, i7], [c0, c1, c2, c3], [s0, s1, s2, s3, s4, s5, s6, s7]
    try:
        g1 = graphs.build(SHARD["sk"], U, graphs.V(ints, codes, sels), SHARD.get("lens"))
        g2 = graphs.build(SHARD["sk"], deprec.Universe(SHARD["which"]), graphs.V(ints, codes, sels), SHARD.get("lens"))
    except graphs.Skip:
        return True
    ok = True
    n_old = 0
    for a, b in zip(g1.nodes, g2.nodes):
        if type(a) is not type(b):
            n_old += 1
        if not (hashing.raw(a.__xpm__.full_identifier.main) == hashing.raw(b.__xpm__.full_identifier.main)):
            rt.note("FAIL: identifier differs with the deprecated class on", type(b).__name__)
            ok = False
    for t1, t2 in zip(g1.extra.get("tasks", []), g2.extra.get("tasks", [])):
        if rt.concrete() and str(t1.__xpm__.job.relpath) != str(t2.__xpm__.job.relpath):
            rt.note("FAIL: job directory differs", t1.__xpm__.job.relpath, t2.__xpm__.job.relpath)
            ok = False
    return fin(ok)


def _files(root: Path):
    out = []
    for dp, dn, fn in os.walk(root, followlinks=False):
        for f in fn:
            p = Path(dp) / f
            if not p.is_symlink():
                out.append(f)
    return sorted(out)


def repair(l0: int, l1: int, l2: int, fix: bool, cleanup: bool, x0: int) -> bool:
    """fix_deprecated makes every job directory stored under a former
    identifier reachable under the new one, never deletes job data, and is
    idempotent.

    post: _
    """
    import experimaestro.scheduler.base as SB
    from experimaestro import RunMode
    from experimaestro.cli import deprecated_list
    import xv.defs.ident as U
    from xv.defs import deprec
    from xv.env import sched

    nj = SHARD.get("jobs", 2)
    layouts = [pick(l0, 4), pick(l1, 4), pick(l2, 4)][:nj]  # 0 plain, 1 already linked, 2 dangling link at the new place, 3 already moved
    if SHARD.get("l0") is not None:
        layouts[0] = SHARD["l0"]
    x0 = 3 + pick(x0, 2)
    root = rt.scratch_dir()
    sched.reset(root)
    ws = root / "ws"
    deprec.set_deprecated(False)
    ok = True
    try:
        xp = SB.experiment(ws, "gen", run_mode=RunMode.GENERATE_ONLY)
        xp.__enter__()
        olds, news = [], []
        for j in range(nj):
            t = deprec.RTaskFormer(x=x0 + j, leaf=U.Leaf(i=j) if j % 2 else None)
            t.submit()
            olds.append(t.__xpm__.job.path)
            (olds[-1] / "data.bin").write_text(f"payload {j}")
            (olds[-1] / "rtaskformer.done").touch()
            # what the replacement class gives for the same parameters
            tn = deprec.RTask(x=x0 + j, leaf=U.Leaf(i=j) if j % 2 else None)
            tn.submit(run_mode=RunMode.DRY_RUN)
            news.append(ws / "jobs" / tn.__xpm__.job.relpath)
        xp.__exit__(None, None, None)
        for o in olds:
            if not (o / "params.json").is_file():
                raise RuntimeError("harness: params.json was not generated")
        before = _files(ws / "jobs")
        deprec.set_deprecated(True)
        # pre-existing states of earlier (partial) repairs
        for j, lay in enumerate(layouts):
            new = news[j]
            if lay == 1:
                new.parent.mkdir(parents=True, exist_ok=True)
                new.symlink_to(olds[j])
            elif lay == 2:
                new.parent.mkdir(parents=True, exist_ok=True)
                new.symlink_to(ws / "jobs" / "gone")
            elif lay == 3:
                new.parent.mkdir(parents=True, exist_ok=True)
                olds[j].rename(new)
        buf = io.StringIO()
        for _round in range(2):
            with contextlib.redirect_stdout(buf), contextlib.redirect_stderr(buf):
                # the repair command: `experimaestro deprecated list [--fix] [--cleanup] <ws>`
                deprecated_list.callback(path=ws, fix=fix, cleanup=cleanup)
            after = _files(ws / "jobs")
            if after != before:
                rt.note("FAIL: job data changed:", before, after)
                ok = False
            for j, lay in enumerate(layouts):
                new, old = news[j], olds[j]
                data_ok = (new / "data.bin").is_file() and (new / "data.bin").read_text() == f"payload {j}"
                if fix or lay in (1, 3):
                    if not data_ok:
                        rt.note(f"FAIL: job {j} (layout {lay}) not reachable under its new identifier after fix={fix} cleanup={cleanup}")
                        ok = False
                    elif not any(p.name.endswith(".done") for p in new.iterdir()):
                        rt.note(f"FAIL: job {j}: success marker not visible under the new path")
                        ok = False
                if not (old.exists() or new.exists()):
                    rt.note(f"FAIL: job {j} data lost")
                    ok = False
        rt.note("layouts", layouts, "fix", fix, "cleanup", cleanup)
    finally:
        deprec.set_deprecated(True)
        SB.experiment.CURRENT = None
    rt.scratch_cleanup()
    return fin(ok)


def conditions(tier):
    conds = []
    classes = ["Leaf", "Node", "Produce", "Out"]
    uses = {"flat": {"Leaf"}, "nested": {"Leaf", "Node"}, "shared": {"Leaf", "Node"}, "deep": {"Leaf", "Node"}, "list": {"Leaf"}, "dict": {"Leaf"}, "taskself": {"Leaf", "Produce"}, "taskout": {"Out"}, "tasklist": {"Produce"}, "pretask": {"Leaf", "Produce"}}
    for sk, used in uses.items():
        nstr = graphs.SKELETONS[sk][1]
        subsets = []
        ul = sorted(used)
        for m in range(1, 2 ** len(ul)):
            subsets.append([ul[i] for i in range(len(ul)) if m & (1 << i)])
        for which in subsets:
            conds.append({"name": f"same_identifier/{sk}/{'+'.join(which)}", "func": "same_identifier", "shard": {"sk": sk, "which": which, "lens": [1] * nstr, "small_ints": 1, "fixed_sels": [1] * 8 if sk in ("shared",) else None}, "timeout": 300 if tier == "quick" else 1200})
    for l0 in range(4):
        conds.append({"name": f"repair/jobs2/l{l0}", "func": "repair", "shard": {"jobs": 2, "real_hash": 1, "l0": l0}, "timeout": 900 if tier == "quick" else 3000})
        if tier == "thorough":
            conds.append({"name": f"repair/jobs3/l{l0}", "func": "repair", "shard": {"jobs": 3, "real_hash": 1, "l0": l0}, "timeout": 6000})
    return conds
