"""C16 — the experiment's job index lists exactly the jobs of the last completed plan."""

import os
from pathlib import Path

from xv import rt
from xv.rt import fin, pick
from xv.env import sched
from xv.harness import schedlib
from xv.harness.schedlib import Scenario

SHARD: dict = {}

INFO = {
    "functions": [
        "scheduler/base.py:experiment.__init__/__enter__/__exit__", "scheduler/base.py:Scheduler.aio_submit (link creation)", "cli/__init__.py:orphans (as observer, on the scratch workspace)",
        "connectors/local.py:LocalConnector.lock (modelled inter-process lock)",
    ],
    "bounds": {
        "quick": {"runs": "2 consecutive runs of one experiment name (+ a third observing run)", "jobs": "3 independent jobs, a symbolic subset submitted in each run", "ending": "normal / exception in the block / scheduler killed, after a symbolic number of delivered events", "schedule": "FIFO (the ending point is the symbolic dimension)"},
        "thorough": {"runs": 3},
    },
    "stubs": schedlib.STUBS,
    "symbolic_data": False,
    "assumptions": ["exit code 0 for every job (failures are C06/C07's subject)", "a second process entering the same experiment blocks on the model lock (real fasteners: busy-waits)"],
    "outside": schedlib.OUTSIDE + ["real fcntl / max_delay timing of the experiment lock"],
}


def setup(mode):
    schedlib.setup(mode)


def _links(d: Path):
    out = {}
    if d.is_dir():
        for p in d.glob("*/*"):
            if p.is_symlink():
                out[str(p.relative_to(d))] = os.readlink(p)
    return out


def _orphans(ws: Path):
    """What `experimaestro orphans` would list (the command's own logic, run
    through its callback on the scratch workspace)"""
    import io
    import contextlib
    from experimaestro.cli import orphans

    buf = io.StringIO()
    with contextlib.redirect_stdout(buf):
        orphans.callback(path=ws, clean=False, size=False, show_all=False, ignore_old=False)
    lines = [l.strip() for l in buf.getvalue().splitlines() if l.strip() and "are not orphans" not in l]
    return lines


def index(
    a0: bool, a1: bool, a2: bool, b0: bool, b1: bool, b2: bool, c0: bool, c1: bool, c2: bool,
    e0: int, e1: int, e2: int, n0: int, n1: int, n2: int,
) -> bool:
    """After each run: normal end -> the job folder links exactly the jobs of
    that run and no backup index remains; abnormal end -> the previous index
    is kept as backup and neither the last completed plan nor the jobs begun
    by the aborted run are reported as orphans.

    post: _
    """
    R = SHARD.get("runs", 2)
    NJ = SHARD.get("jobs", 3)
    subsets = [[a0, a1, a2], [b0, b1, b2], [c0, c1, c2]][:R]
    if SHARD.get("endings") is not None:
        endings = list(SHARD["endings"])  # enumerated by the shard
    else:
        endings = [pick(e0, 3), pick(e1, 3), pick(e2, 3)][:R]  # 0 normal, 1 exception, 2 killed
    if SHARD.get("first") is not None:
        subsets[0] = list(SHARD["first"])
    cuts = [n0, n1, n2][:R]
    world = None
    ok = True
    last_completed = None  # relpaths of the last normally completed plan
    begun_since = set()
    for r in range(R):
        sub = subsets[r]
        sc = Scenario("indep3", [0, 0, 0])
        prog = [("submit", i) for i in range(NJ) if sub[i]]
        sc.start(world=world, name="x", program=prog + ([("wait",)] if endings[r] == 0 else []))
        world = sc.w
        ws = world.root / "ws"
        xpdir = ws / "xp" / "x"
        if endings[r] == 0:
            sc.run([], 0)
            sc.finish()
        else:
            # deliver a symbolic number of events, then the block raises / the process dies
            limit = pick(cuts[r], 7)
            k = 0
            while k < limit:
                en = world.enabled()
                if not en:
                    break
                world.deliver(en[0])
                k += 1
            sc.abort("exception" if endings[r] == 1 else "kill")
            # job processes of the aborted run live on and end by themselves
            for _ in range(40):
                en = [e for e in world.enabled() if e.label[0] == "exit"]
                if not en:
                    break
                world.deliver(en[0])
            world.events = []
        if sc.harness_errors():
            raise RuntimeError(str(sc.harness_errors())[:300])
        submitted = {str(sc.jobs[i].relpath): sc.jobs[i] for i in range(3) if sc.jobs[i] is not None}
        linked_jobs = {rel for rel, j in submitted.items() if j._future is not None}
        jobs_l, bak_l = _links(xpdir / "jobs"), _links(xpdir / "jobs.bak")
        for rel, target in jobs_l.items():
            if rel in submitted and Path(target) != submitted[rel].path:
                rt.note("FAIL: link does not point to the job directory", rel)
                ok = False
        if endings[r] == 0:
            if set(jobs_l) != set(submitted):
                rt.note("FAIL: index", sorted(jobs_l), "!= submitted", sorted(submitted))
                ok = False
            if (xpdir / "jobs.bak").exists():
                rt.note("FAIL: backup index remains after a normal end")
                ok = False
            last_completed = set(submitted)
            begun_since = set()
        else:
            begun_since |= {rel for rel in submitted if (xpdir / "jobs" / rel).is_symlink()}
            must = (last_completed or set()) | begun_since
            have = set(jobs_l) | set(bak_l)
            if not must <= have:
                rt.note("FAIL: lost from the indexes:", sorted(must - have))
                ok = False
            orph = _orphans(ws)
            for rel in must:
                if any(rel in line for line in orph):
                    rt.note("FAIL: reported as orphan:", rel)
                    ok = False
        rt.note(f"run {r}: ending {endings[r]} submitted {sorted(submitted)} jobs {sorted(jobs_l)} bak {sorted(bak_l)}")
    rt.scratch_cleanup()
    return fin(ok)


def exclusive(n: int, a0: bool, a1: bool) -> bool:
    """A second process cannot enter the same experiment while the first one
    holds it, and does not touch the indexes before it owns the lock.

    post: _
    """
    import experimaestro.scheduler.base as SB

    sc = Scenario("indep2", [0, 0])
    sc.start(program=[("submit", i) for i in range(2) if [a0, a1][i]])
    w = sc.w
    limit = pick(n, 6)
    k = 0
    while k < limit:
        en = w.enabled()
        if not en:
            break
        w.deliver(en[0])
        k += 1
    xpdir = w.root / "ws" / "xp" / "x"
    before = (_links(xpdir / "jobs"), _links(xpdir / "jobs.bak"), (xpdir / "jobs.bak").exists())
    # another process tries to enter the same experiment
    w.current_pid = 2
    cur = SB.experiment.CURRENT
    other = SB.experiment(w.root / "ws", "x", launcher=sched.make_launcher(w.root / "conn"))
    blocked = False
    try:
        other.__enter__()
    except sched.WouldBlockLock:
        blocked = True
    except Exception:
        blocked = True
    SB.experiment.CURRENT = cur
    w.current_pid = 1
    after = (_links(xpdir / "jobs"), _links(xpdir / "jobs.bak"), (xpdir / "jobs.bak").exists())
    ok = blocked and before == after
    if not ok:
        rt.note("FAIL: second process entered or modified the indexes", blocked, before, after)
    rt.scratch_cleanup()
    return fin(ok)


def conditions(tier):
    conds = []
    for e0 in range(3):
        for e1 in range(3):
            # three jobs only for the ending pairs where an aborted run follows or precedes a normal one
            nj = 3 if (tier == "thorough" and (e0, e1) in ((0, 1), (1, 0), (2, 0))) else 2
            for f in range(2 ** nj):
                first = [bool(f & 1), bool(f & 2), bool(f & 4)]
                conds.append({"name": f"index/e{e0}{e1}/first{f}", "func": "index", "shard": {"runs": 2, "jobs": nj, "endings": [e0, e1], "first": first}, "timeout": 600 if tier == "quick" else 3000})
    for e in ([0, 1, 0], [0, 2, 0]) if tier == "quick" else ([0, 1, 0], [0, 2, 0], [1, 1, 0], [2, 1, 2], [1, 2, 0], [0, 2, 1]):
        conds.append({"name": f"index/runs3-e{''.join(map(str, e))}", "func": "index", "shard": {"runs": 3, "jobs": 2, "endings": e, "first": [True, True, False]}, "timeout": 900 if tier == "quick" else 6000})
    conds.append({"name": "exclusive", "func": "exclusive", "shard": {}, "timeout": 300})
    return conds
