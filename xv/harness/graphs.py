"""Symbolic value supply and configuration-graph skeletons shared by the
identifier / serialisation / sealing / generated-path harnesses."""

from pathlib import Path

from xv import rt
from xv.rt import pick

INT64_MIN, INT64_MAX = -(2**63), 2**63

#: concrete float menu (symbolic floats are realised by struct.pack("!d"))
FLOATS = [0.0, 1.0, 0.5, -2.25, 1e10, 3.0]

#: dict keys are concrete (symbolic keys make the dict model and the key sort explode)
KEYS = ["a", "ab", "b", "k1", "k2"]


class Skip(Exception):
    """Raised as soon as a symbolic value leaves the claimed domain: the
    harness returns True (assumption), so the path ends at once"""


class V:
    """Value supply: hands out the symbolic arguments of the harness in order"""

    def __init__(self, ints, codes, sels, lo=32, hi=127):
        self.ints, self.codes, self.sels = list(ints), list(codes), list(sels)
        self.ni = self.nc = self.ns = 0
        self.ok = True
        self.lo, self.hi = lo, hi

    def int(self):
        x = self.ints[self.ni]
        self.ni += 1
        small = rt.SHARD.get("small_ints")
        if small is not None and self.ni > small:
            # all but the first `small` ints are restricted to one byte (the
            # solver otherwise spends seconds per path proving that the
            # fixed-width '!q' packing is injective)
            if not (0 <= x < 256):
                raise Skip()
            return x
        if not (INT64_MIN <= x < INT64_MAX):
            raise Skip()
        return x

    def cint(self):
        """cheap int: symbolic the first time, then small distinct constants
        (structure-oriented families do not need every value symbolic)"""
        if self.ni == 0:
            return self.int()
        self.nconst = getattr(self, "nconst", 0) + 1
        return 10 + self.nconst

    def code(self):
        c = self.codes[self.nc]
        self.nc += 1
        if not (self.lo <= c < self.hi):
            raise Skip()
        if 0xD800 <= c <= 0xDFFF or 0x7F <= c <= 0x9F:
            # surrogates cannot be encoded, C1 controls are outside the domain
            raise Skip()
        return c

    def str(self, n):
        s = ""
        for _ in range(n):
            s = s + chr(self.code())
        return s

    def sel(self, n):
        s = self.sels[self.ns]
        self.ns += 1
        fixed = rt.SHARD.get("fixed_sels")
        if fixed is not None:
            # structure selectors enumerated by the shard instead of solved
            return fixed[self.ns - 1] % n
        return pick(s, n)

    def bool(self):
        return self.sel(2) == 1

    def float(self):
        return FLOATS[self.sel(len(FLOATS))]


class G:
    """A built graph"""

    def __init__(self, root, nodes, **extra):
        self.root = root
        self.nodes = nodes  # list of configuration objects (deterministic order)
        self.extra = extra


_WS = [None]


def workspace():
    """A workspace object for dry-run submissions (nothing is written)"""
    from experimaestro.scheduler.workspace import Workspace
    from experimaestro.settings import Settings, WorkspaceSettings

    if _WS[0] is None:
        _WS[0] = Workspace(Settings(), WorkspaceSettings(id=None, path=Path("/xvws")))
    return _WS[0]


#: set by C02 while building the second copy of a graph: the submission uses
#: another workspace / an explicit launcher (documented as outside the signature)
VARIANT = [None]
_WS2 = [None]


def dry_submit(task, init_tasks=None, launcher=None, run_mode=None, ws=None):
    from experimaestro import RunMode

    if VARIANT[0] == "workspace":
        from experimaestro.scheduler.workspace import Workspace
        from experimaestro.settings import Settings, WorkspaceSettings

        if _WS2[0] is None:
            _WS2[0] = Workspace(Settings(), WorkspaceSettings(id=None, path=Path("/xvws-other/deeper")))
        ws = _WS2[0]
    elif VARIANT[0] == "launcher":
        from experimaestro.launchers.direct import DirectLauncher
        from experimaestro.connectors.local import LocalConnector

        launcher = DirectLauncher(LocalConnector(Path("/xv-conn")))

    return task.submit(
        workspace=ws or workspace(),
        launcher=launcher,
        run_mode=run_mode or RunMode.DRY_RUN,
        init_tasks=init_tasks or [],
    )


# ---------------------------------------------------------------- skeletons
# Each skeleton takes the universe module U, a value supply v and the list of
# string lengths of the shard; it returns a G.


def _leaf(U, v, L, cls=None):
    cls = cls or U.Leaf
    kw = {"i": v.int()}
    if L:
        kw["s"] = v.str(L.pop(0))
    if v.bool():
        kw["o"] = v.int()
    kw["e"] = [U.Color.RED, U.Color.GREEN, U.Color.BLUE][v.sel(3)]
    return cls(**kw)


def sk_flat(U, v, L):
    a = _leaf(U, v, L)
    return G(a, [a])


def sk_pair(U, v, L):
    a = U.Pair(a=v.str(L.pop(0)), b=v.str(L.pop(0)), x=v.int(), y=v.int())
    return G(a, [a])


def sk_floats(U, v, L):
    # (path values: one relative, one absolute - Path parameters are outside the signature)
    a = U.Floats(f=v.float(), g=v.float(), n=v.int(), flag=v.bool(), e=[U.Shade.RED, U.Shade.DARK][v.sel(2)], where=Path("data/corpus"), wheres={"a": Path("rel/x.bin"), "b": Path("/abs/y")})
    return G(a, [a])


def sk_nested(U, v, L):
    c = _leaf(U, v, L)
    kw = {"x": v.int(), "child": c}
    nodes = [c]
    if v.bool():
        o = U.Leaf(i=v.int())
        kw["other"] = o
        nodes.append(o)
    n = U.Node(**kw)
    return G(n, [n] + nodes)


def sk_shared(U, v, L):
    """The same Leaf object referenced from three places"""
    c = _leaf(U, v, L)
    n1 = U.Node(x=v.int(), child=c)
    n2 = U.Node(x=v.int(), child=c, other=c)
    t = U.Top(n1=n1, n2=n2, leaf=c, t=v.int())
    return G(t, [t, n1, n2, c])


def sk_deep(U, v, L):
    c = _leaf(U, v, L)
    n1 = U.Node(child=c, x=v.int())
    t = U.Top(n1=n1)
    return G(t, [t, n1, c])


def sk_list(U, v, L):
    a, b = U.Leaf(i=v.int()), U.Leaf(i=v.int())
    bag = U.Bag(xs=[a, b], ints=[v.int(), v.int()], strs=[v.str(L.pop(0)), v.str(L.pop(0))] if len(L) >= 2 else [])
    return G(bag, [bag, a, b])


def sk_dict(U, v, L):
    a, b = U.Leaf(i=v.int()), U.Leaf(i=v.int())
    k1, k2 = SHARD_KEYS()
    bag = U.Bag(d={k1: a, k2: b}, di={k2: v.int(), k1: v.int()}, dd={k1: {k2: v.int()}, k2: {k1: v.int(), k2: v.int()}})
    return G(bag, [bag, a, b])


def sk_nestedlists(U, v, L):
    bag = U.Bag(ll=[[v.int()], [v.int(), v.int()]], ls=[[v.str(L.pop(0))], [v.str(L.pop(0))]] if len(L) >= 2 else [])
    return G(bag, [bag])


def sk_cyc2(U, v, L):
    a = U.CycA(v=v.int())
    b = U.CycB(v=v.int(), a=a)
    a.b = b
    return G(a, [a, b])


def sk_cyc3(U, v, L):
    c = U.CycC(v=v.int())
    b = U.CycB(v=v.int(), c=c)
    a = U.CycA(v=v.int(), b=b)
    c.a = a
    if v.bool():
        c.b = b
    return G(a, [a, b, c])


def sk_cyc3tail(U, v, L):
    """A cycle reached from a non-cyclic parent, plus a shared acyclic leaf"""
    c = U.CycC(v=v.int())
    b = U.CycB(v=v.int(), c=c)
    a = U.CycA(v=v.int(), b=b)
    c.a = a
    return G(a, [a, b, c])


def sk_taskself(U, v, L):
    """Task whose output is itself, consumed by another task"""
    p = U.Produce(x=v.int(), leaf=U.Leaf(i=v.int()) if v.bool() else None)
    out = dry_submit(p)
    c = U.Consume(src=out, y=v.int())
    return G(c, [c, p], tasks=[p])


def sk_taskout(U, v, L):
    """Task returning another configuration as its output"""
    o = U.Out(w=v.int())
    p = U.Produce2(x=v.int(), out=o)
    out = dry_submit(p)
    w = U.Wrap(out=out, n=v.int())
    c = U.Consume(src2=out, node=w)
    return G(c, [c, w, o, p], tasks=[p])


def sk_tasklist(U, v, L):
    p1, p2 = U.Produce(x=v.int()), U.Produce(x=v.int())
    o1, o2 = dry_submit(p1), dry_submit(p2)
    c = U.Consume(srcs=[o1, o2], dsrc={"a": o2})
    return G(c, [c, p1, p2], tasks=[p1, p2])


def sk_pretask(U, v, L):
    """Pre-tasks attached at the root and on a nested configuration"""
    pre1, pre2 = U.Pre(z=v.int()), U.Pre2(z=v.int())
    leaf = U.Leaf(i=v.int())
    leaf.add_pretasks(pre2)
    p = U.Produce(x=v.int(), leaf=leaf)
    if v.bool():
        p.add_pretasks(pre1)
    else:
        p.add_pretasks(pre1, pre2)
    return G(p, [p, leaf, pre1, pre2], pre=[pre1, pre2])


def sk_marker(U, v, L):
    """Parameter-less nodes: as a value, as list members, as a pre-task"""
    m, m2 = U.Marker(), U.Marker()
    pre = U.NoArgPre()
    t = U.Tagged(marker=m, markers=[m2, m] if v.bool() else [m2], x=v.int())
    t.add_pretasks(pre)
    return G(t, [t, m, m2, pre], pre=[pre])


def sk_nestedcont(U, v, L):
    """Configurations inside containers inside containers"""
    a, b, c = U.Leaf(i=v.int()), U.Leaf(i=v.int()), U.Leaf(i=v.int())
    bag = U.Bag(dl={"a": [a, b]}, lls=[[b], [c]], ld=[{"k1": c}])
    return G(bag, [bag, a, b, c])


SKELETONS = {
    "marker": (sk_marker, 0),
    "nestedcont": (sk_nestedcont, 0),
    "flat": (sk_flat, 1),
    "pair": (sk_pair, 2),
    "floats": (sk_floats, 0),
    "nested": (sk_nested, 1),
    "shared": (sk_shared, 1),
    "deep": (sk_deep, 1),
    "list": (sk_list, 2),
    "dict": (sk_dict, 0),
    "nestedlists": (sk_nestedlists, 2),
    "cyc2": (sk_cyc2, 0),
    "cyc3": (sk_cyc3, 0),
    "taskself": (sk_taskself, 0),
    "taskout": (sk_taskout, 0),
    "tasklist": (sk_tasklist, 0),
    "pretask": (sk_pretask, 0),
}


def SHARD_KEYS():
    ks = rt.SHARD.get("keys") or ["a", "ab"]
    return ks[0], ks[1]


def build(name, U, v, lens=None):
    fn, nstr = SKELETONS[name]
    L = list(lens) if lens is not None else [1] * nstr
    return fn(U, v, L)
