"""Scenario runner shared by the scheduler-family harnesses (C04, C06–C09).

A scenario = DAG of jobs (shard) + optional counter token + symbolic exit
codes / requests / schedule. The real experiment / Scheduler / Job / token
code runs on the deterministic loop of xv.env.sched.
"""

from pathlib import Path

from xv import rt
from xv.rt import pick
from xv.env import sched

SHAPES = {
    "one": [[]],
    "chain2": [[], [0]],
    "indep2": [[], []],
    "chain3": [[], [0], [1]],
    "fork3": [[], [0], [0]],
    "join3": [[], [], [0, 1]],
    "indep3": [[], [], []],
    "mixed3": [[], [0], []],
    "diamond4": [[], [0], [0], [1, 2]],
    "chain4": [[], [0], [1], [2]],
    "join4": [[], [], [], [0, 1, 2]],
    "two2": [[], [0], [], [2]],
}

STUBS = [
    "asyncio loop of SchedulerCentral -> DetLoop (pure-Python FIFO loop, _PyFuture/_PyTask); asyncio.Event/Lock/Condition are the real ones",
    "utils.asyncio.asyncThreadcheck -> helper thread body + completion delivered as ONE external event (enabled when the awaited lock is free / the awaited process has exited)",
    "asyncio.run_coroutine_threadsafe -> task on the loop; .result() = the calling thread blocks while the loop runs FIFO",
    "LocalProcessBuilder.start / script writing -> record in the model OS; exit = external event carrying a symbolic exit code; at exit the model writes .done (code 0) or .failed and releases the job lock",
    "fasteners.InterProcessLock -> table path -> owner pid (POSIX record locks do not conflict inside one real process)",
    "Job.dependencies / Dependents._dependents -> insertion-ordered sets, iteration order reversed under a symbolic bool",
    "TaskOutputsWorker -> inert; signal.signal -> recorded; module loggers -> recorders of swallowed exceptions",
]

OUTSIDE = [
    "schedules deviating from FIFO delivery after the K-th choice point",
    "interleavings inside one helper-thread body or one loop callback (statement-level races)",
    "real fcntl / inotify / psutil / subprocess behaviour, SSH and Slurm launchers, the web server, dynamic task outputs",
    "more jobs / tokens than the shard bounds",
]


def setup(mode):
    """Stubs of the scheduler family: deterministic environment + constant
    call-site info (inspect.stack costs seconds per path under tracing); the
    real sha256 is kept (job identifiers are concrete here)"""
    import experimaestro.core.objects as O
    from xv.env import hashing

    sched.install()
    O.inspect = hashing.FakeInspect()
    O.cprint = lambda *a, **k: None


class Scenario:
    def __init__(self, shape, codes, rev=False, token=None, total=0, reqs=None, premark=None, resubmit=None, total2=0, reqs2=None, key_base=0):
        self.deps = SHAPES[shape] if isinstance(shape, str) else shape
        self.n = len(self.deps)
        self.codes = codes
        self.rev = rev
        self.token_kind = token  # None | "process" | "file"
        self.total = total
        self.reqs = reqs or [None] * self.n
        self.total2 = total2
        self.reqs2 = reqs2 or [None] * self.n
        self.key_base = key_base  # distinct job keys / identities for a second scheduler in the same world
        self.premark = premark or [False] * self.n
        self.resubmit = resubmit  # index of a job re-submitted after it failed (or None)
        self.configs = [None] * self.n
        self.outputs = [None] * self.n
        self.jobs = [None] * self.n
        self.re_jobs = []
        self.dups = []
        self.wait_future = None
        self.wait_outcome = None
        self.submit_errors = []
        self.violations = []
        self.steps = 0
        self.hung = False

    # ------------------------------------------------------------ set-up
    def start(self, world=None, name="x", pid=1, program=None):
        """Enters an experiment. With `world`, a further experiment run is
        started in an existing world (same workspace directory)"""
        import experimaestro.scheduler.base as SB
        from experimaestro.tokens import ProcessCounterToken
        import xv.defs.sched as U

        self.U = U
        self.pid = pid
        if world is None:
            root = rt.scratch_dir()
            self.w = w = sched.reset(root)
        else:
            self.w = w = world
            root = w.root
            SB.experiment.CURRENT = None
        w.current_pid = pid
        w.reverse_sets = self.rev
        self.trace_start = len(w.trace)
        self.launcher = sched.make_launcher(root / "conn")
        self.xp = SB.experiment(root / "ws", name, launcher=self.launcher)
        self.xp.__enter__()
        self.xp.central.loop.xp = self.xp
        self.token = None
        if self.token_kind == "process":
            self.token = ProcessCounterToken(self.total)
        elif self.token_kind == "file":
            self.token = self.launcher.connector.createtoken("tok", self.total)
        self.token2 = None
        if any(r is not None for r in self.reqs2):
            self.token2 = ProcessCounterToken(self.total2)
        for i in range(self.n):
            w.codes[self.key_base + i] = self.codes[i]
            w.reqs[self.key_base + i] = self.reqs[i]
        # main-thread program: submissions in order, then wait
        self.main_pc = 0
        if program is not None:
            self.program = list(program)
        else:
            self.program = [("submit", i) for i in range(self.n)]
            if self.resubmit is not None:
                self.program.append(("resubmit", self.resubmit))
            self.program.append(("wait",))
        self._add_main_event()
        return self

    def _config(self, i):
        U = self.U
        after = [self.outputs[j] for j in self.deps[i]]
        cfg = U.SJ(x=self.key_base + i, after=after)
        object.__setattr__(cfg, "xv_key", self.key_base + i)
        if self.reqs[i] is not None:
            cfg.add_dependencies(self.token.dependency(self.reqs[i]))
        if self.reqs2[i] is not None:
            cfg.add_dependencies(self.token2.dependency(self.reqs2[i]))
        return cfg

    def _add_main_event(self):
        if self.main_pc >= len(self.program):
            return
        step = self.program[self.main_pc]

        def enabled():
            if step[0] == "resubmit":
                # only meaningful once the first submission has failed
                j = self.jobs[step[1]]
                return j is not None and j._future is not None and j._future.done()
            if step[0] == "redup":
                return self.main_pc > 0
            return True

        ev = self.w.add(("main", self.pid) + tuple(step) if self.key_base else ("main",) + tuple(step), lambda: self._main(step), enabled)
        self.main_events = getattr(self, "main_events", []) + [ev]

    def _main(self, step):
        import experimaestro.scheduler.base as SB

        from experimaestro.scheduler.workspace import Workspace

        self.w.current_pid = self.pid
        SB.experiment.CURRENT = self.xp
        Workspace.CURRENT = self.xp.workspace
        if step[0] == "submit":
            i = step[1]
            cfg = self._config(i)
            self.configs[i] = cfg
            self.outputs[i] = cfg.submit()
            self.jobs[i] = cfg.__xpm__.job
        elif step[0] == "dup":
            # an identical configuration submitted again
            i = step[1]
            cfg = self._config(i)
            object.__setattr__(cfg, "xv_key", ("dup", i))
            out = cfg.submit()
            self.dups.append((i, cfg, out))
        elif step[0] == "resubmit":
            i = step[1]
            if self.jobs[i].state == SB.JobState.ERROR:
                cfg = self._config(i)
                object.__setattr__(cfg, "xv_key", ("re", i))
                self.w.codes[("re", i)] = self.recodes[i] if getattr(self, "recodes", None) else self.codes[i]
                self.re_outputs = getattr(self, "re_outputs", []) + [cfg.submit()]
                self.re_jobs.append(cfg.__xpm__.job)
        elif step[0] == "redup":
            # a duplicate of the re-submission of job i
            i = step[1]
            if self.re_jobs:
                cfg = self._config(i)
                object.__setattr__(cfg, "xv_key", ("redup", i))
                self.w.codes[("redup", i)] = 0
                out = cfg.submit()
                self.dups.append((("re", i), cfg, out))
        elif step[0] == "wait":
            try:
                self.xp.wait()
                self.wait_outcome = "returned"
            except sched.WouldBlock as wb:
                self.wait_future = wb.future
            except SB.FailedExperiment:
                self.wait_outcome = "failed"
        self.main_pc += 1
        self._add_main_event()

    # ------------------------------------------------------------ running
    def run(self, choices, K, after_step=None, cap=120, prefix=(), P=3):
        """Delivers events until none is enabled. A *choice point* is a step
        with at least two enabled events; the first len(prefix) choice points
        are decided by the shard (buckets 0..P-2 = that index, bucket P-1 =
        any index >= P-1, symbolic), the next ones up to K by the symbolic
        choices, the following ones FIFO."""
        w = self.w
        k = 0
        while True:
            en = w.enabled()
            if not en:
                break
            if len(en) == 1:
                c = 0
            elif k < len(prefix):
                b = prefix[k]
                if b < P - 1 or len(en) <= P - 1:
                    c = min(b, len(en) - 1)
                else:
                    c = (P - 1) + pick(choices[k], len(en) - (P - 1))
                k += 1
            elif k < K:
                c = pick(choices[k], len(en))
                k += 1
            else:
                c = 0
            rt.note("deliver", en[c].label)
            w.deliver(en[c])
            self.steps += 1
            self._monitor()
            if after_step is not None:
                after_step(self)
            if self.steps > cap:
                self.hung = True
                break
        self.deadlock = [e.label for e in w.events]
        return self

    def _monitor(self):
        # wait() must not return before every job is final
        if self.wait_future is not None and self.wait_future.task.done() and self.wait_outcome is None:
            self.wait_outcome = self._outcome(self.wait_future)
            for j in self.all_jobs():
                if j is not None and (j._future is None or not j._future.task.done()):
                    self.violations.append("experiment.wait() returned while a job was not final")
        # capacity
        if self.token is not None:
            held = 0
            for p in self.w.running_procs():
                r = self._req_of(p.job)
                if r is not None:
                    held = held + r
            if held > self.total:
                self.violations.append("capacity exceeded")
        if self.token is not None and self.w.fs_events:
            # multi-process model: the on-disk record is what other processes
            # rely on - a job whose process runs must have its token file
            for p in self.w.running_procs():
                if self._req_of(p.job) is not None:
                    f = self.token.path / f"{p.job.identifier}.token"
                    if not f.is_file():
                        self.violations.append("a running job has no token file (capacity exceeded as soon as another job acquires)")
        if self.token2 is not None:
            held2 = 0
            for p in self.w.running_procs():
                key = sched.jobkey(p.job)
                key = key[1] if isinstance(key, tuple) else key
                if self.reqs2[key] is not None:
                    held2 = held2 + self.reqs2[key]
            if held2 > self.total2:
                self.violations.append("capacity exceeded (second token)")

    def _req_of(self, job):
        key = sched.jobkey(job)
        if isinstance(key, tuple):
            key = key[1]
        return self.w.reqs.get(key)

    def _outcome(self, fut):
        import experimaestro.scheduler.base as SB

        try:
            fut.task.result()
            return "returned"
        except SB.FailedExperiment:
            return "failed"

    def all_jobs(self):
        return [j for j in self.jobs] + list(self.re_jobs)

    def finish(self):
        """Leaves the experiment (only meaningful at quiescence)"""
        import experimaestro.scheduler.base as SB

        try:
            self.xp.__exit__(None, None, None)
            self.exit_outcome = "returned"
        except sched.WouldBlock:
            self.exit_outcome = "hang"
        except SB.FailedExperiment:
            self.exit_outcome = "failed"
        return self.exit_outcome

    # ------------------------------------------------------------ facts
    def launches(self, key):
        if isinstance(key, int):
            key = self.key_base + key
        return [t for t in self.w.trace[self.trace_start:] if t[0] == "launch" and t[1] == key]

    def abort(self, how):
        """Ends the experiment abnormally: 'exception' = the with-block raises;
        'kill' = the scheduler process dies (no __exit__ at all)"""
        import experimaestro.scheduler.base as SB
        from experimaestro.scheduler.workspace import Workspace

        loop = self.w.loops.get(self.pid)
        # the main thread does not continue its program
        mine = getattr(self, "main_events", [])
        self.w.events = [e for e in self.w.events if not any(e is m for m in mine)]
        if how == "exception":
            try:
                self.xp.__exit__(RuntimeError, RuntimeError("boom"), None)
            except sched.WouldBlock:
                pass
            if loop is not None:
                self.w.kill_scheduler(loop)
        else:
            if loop is not None:
                self.w.kill_scheduler(loop)
            if self.xp in SB.SIGNAL_HANDLER.experiments:
                SB.SIGNAL_HANDLER.experiments.discard(self.xp)
            SB.experiment.CURRENT = None
            Workspace.CURRENT = None

    def harness_errors(self):
        """Exceptions swallowed by the scheduler that reveal a stub/harness
        problem rather than behaviour of the code under test"""
        bad = []
        for s in self.w.swallowed:
            txt = " ".join(str(x) for x in s)
            if "HarnessError" in txt or "TypeError" in txt or "CrossHair" in txt or "AttributeError" in txt:
                bad.append(txt)
        for loop in self.w.loops.values():
            for ctx in loop.exceptions:
                bad.append("loop exception: " + repr(ctx.get("exception")))
        return bad


def transitive_deps(deps, i):
    out = []
    todo = list(deps[i])
    while todo:
        j = todo.pop()
        if j not in out:
            out.append(j)
            todo.extend(deps[j])
    return out


# ---------------------------------------------------------------- shared driver + oracles


def drive(shard, total, rs, cs, rev, choices, token_kind="process", total2=0, rs2=None):
    """Builds and runs the scenario described by the shard with the symbolic
    arguments; returns None when the arguments are outside the claimed domain"""
    shape, K = shard["shape"], shard["K"]
    tokmask = shard.get("token")
    deps = SHAPES[shape]
    n = len(deps)
    codes = list(cs[:n])
    reqs = [None] * n
    if tokmask:
        if total < 1:
            return None
        for i in range(n):
            if tokmask[i]:
                if not (1 <= rs[i] <= total):
                    return None
                reqs[i] = rs[i]
    reqs2 = [None] * n
    if shard.get("token2"):
        if total2 < 1:
            return None
        for i in range(n):
            if shard["token2"][i]:
                if not (1 <= rs2[i] <= total2):
                    return None
                reqs2[i] = rs2[i]
    sc = Scenario(shape, codes, rev=rev, token=(shard.get("token_kind") or token_kind) if tokmask else None, total=total, reqs=reqs, resubmit=shard.get("resubmit"), total2=total2, reqs2=reqs2)
    sc.start()
    sc.run(choices, K, prefix=shard.get("prefix") or ())
    errs = sc.harness_errors()
    if errs:
        raise sched.HarnessError("; ".join(errs)[:500])
    return sc


def expected_states(sc):
    """Reference: final state of each job from the DAG and the exit codes"""
    import experimaestro.scheduler.base as SB

    out = []
    for i in range(sc.n):
        anc_failed = False
        for j in transitive_deps(sc.deps, i):
            if sc.codes[j] != 0:
                anc_failed = True
        if anc_failed:
            out.append(("cancelled", SB.JobState.ERROR))
        elif sc.codes[i] == 0:
            out.append(("run", SB.JobState.DONE))
        else:
            out.append(("run", SB.JobState.ERROR))
    return out


def ordering_ok(sc):
    """C04: at each launch, every transitive dependency has exited with 0 before"""
    ok = True
    exited = []
    for t in sc.w.trace:
        if t[0] == "exit":
            exited.append(t[1])
        elif t[0] == "launch":
            key = t[1]
            i = key[1] if isinstance(key, tuple) else key
            for u in transitive_deps(sc.deps, i):
                if u not in exited:
                    rt.note(f"FAIL: job {i} launched before dependency {u} exited")
                    ok = False
                elif sc.codes[u] != 0:
                    rt.note(f"FAIL: job {i} launched although dependency {u} failed")
                    ok = False
    return ok


def with_prefixes(cond, depth=2, P=3):
    """Splits a condition into P**depth shards on its first choice points"""
    out = []

    def rec(prefix):
        if len(prefix) == depth:
            c = dict(cond)
            c["shard"] = dict(cond["shard"], prefix=list(prefix))
            c["name"] = cond["name"] + "/p" + "".join(map(str, prefix))
            out.append(c)
            return
        for b in range(P):
            rec(prefix + [b])

    rec([])
    return out


def duo(shard, c0, c1, rev, choices, kill_at=None):
    """Two scheduler processes (own experiment, own CounterToken instance,
    own loop) sharing one workspace and one token directory; filesystem
    watcher notifications are external events. Returns (A, B)."""
    total, reqs = shard["total"], shard["reqs"]
    A = Scenario("one", [c0], rev=rev, token="file", total=total, reqs=[reqs[0]])
    A.start(name="x1", pid=1)
    w = A.w
    w.fs_events = True
    B = Scenario("one", [c1], rev=rev, token="file", total=total, reqs=[reqs[1]], key_base=10)
    # observer variant: the second process only holds a CounterToken instance
    # on the directory (it submits nothing)
    B.start(world=w, name="x2", pid=2, program=[("wait",)] if shard.get("observer") else None)
    w.fs_scan()
    if kill_at is None:
        A.run(choices, shard["K"], prefix=shard.get("prefix") or ())
    else:
        # scheduler 1 dies after kill_at delivered events
        k = 0
        ci = 0
        while k < kill_at:
            en = w.enabled()
            if not en:
                break
            if len(en) > 1 and ci < shard.get("K1", 3):
                c = pick(choices[ci], len(en))
                ci += 1
            else:
                c = 0
            w.deliver(en[c])
            A._monitor()
            k += 1
        A.abort("kill")
        B.run(choices[3:], shard["K"])
        A.violations += B.violations
    errs = A.harness_errors() + B.harness_errors()
    if errs:
        raise sched.HarnessError("; ".join(errs)[:500])
    return A, B
