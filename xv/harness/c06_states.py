"""C06 — every job reaches a truthful, stable final state and the experiment exits.

Real code under symbolic execution: Scheduler.aio_registerJob/aio_submit/
aio_start, Job.dependencychanged, Dependency.check, JobDependency/JobLock,
Token.aio_notify, ProcessCounterToken, Locks, experiment.__enter__/wait/
__exit__, CommandLineJob.aio_process/aio_run.
"""

from xv import rt
from xv.rt import fin
from xv.env import sched
from xv.harness import schedlib
from xv.harness.schedlib import Scenario, transitive_deps

SHARD: dict = {}

INFO = {
    "functions": [
        "scheduler/base.py:Scheduler.aio_registerJob", "scheduler/base.py:Scheduler.aio_submit", "scheduler/base.py:Scheduler.aio_start",
        "scheduler/base.py:Scheduler.submit", "scheduler/base.py:Job.dependencychanged", "scheduler/base.py:JobDependency.status",
        "scheduler/base.py:JobLock._acquire", "scheduler/base.py:experiment.__enter__/wait/__exit__", "scheduler/dependencies.py:Dependency.check",
        "scheduler/dependencies.py:Dependents", "tokens.py:ProcessCounterToken.acquire/release", "tokens.py:Token.aio_notify",
        "tokens.py:CounterTokenDependency.status", "locking.py:Lock/Locks", "commandline.py:CommandLineJob.aio_process/aio_run",
        "core/objects.py:ConfigInformation.submit/updatedependencies",
    ],
    "bounds": {
        "quick": {"jobs": "<=3", "tokens": "0..1 (in-process counter token)", "schedule_choice_points": 6, "then": "FIFO to quiescence", "resubmission": "one failed job re-submitted once"},
        "thorough": {"jobs": "<=4", "tokens": "0..1", "schedule_choice_points": 5, "resubmission": "one failed job re-submitted once"},
    },
    "stubs": schedlib.STUBS,
    "symbolic_data": True,
    "assumptions": [
        "token total and requests are symbolic ints with 1 <= request <= total (a larger request legitimately never runs)",
        "exit codes are unbounded symbolic ints",
        "no success marker exists before the run (prior workspace content is C05's subject)",
    ],
    "outside": schedlib.OUTSIDE,
}


def setup(mode):
    schedlib.setup(mode)


def scenario(
    total: int, r0: int, r1: int, r2: int, r3: int,
    c0: int, c1: int, c2: int, c3: int,
    rev: bool,
    s0: int, s1: int, s2: int, s3: int, s4: int, s5: int, s6: int, s7: int, s8: int, s9: int,
) -> bool:
    """At quiescence every job is final, truthfully and stably; waiting on the
    experiment returns exactly then.

    post: _
    """
    import experimaestro.scheduler.base as SB

    shape, K = SHARD["shape"], SHARD["K"]
    tokmask = SHARD.get("token")  # list of 0/1 per job, or None
    deps = schedlib.SHAPES[shape]
    n = len(deps)
    codes = [c0, c1, c2, c3][:n]
    reqs = [None] * n
    if tokmask:
        rs = [r0, r1, r2, r3]
        if total < 1:
            return True
        for i in range(n):
            if tokmask[i]:
                if not (1 <= rs[i] <= total):
                    return True
                reqs[i] = rs[i]
    sc = Scenario(shape, codes, rev=rev, token="process" if tokmask else None, total=total, reqs=reqs, resubmit=SHARD.get("resubmit"))
    sc.start()
    sc.run([s0, s1, s2, s3, s4, s5, s6, s7, s8, s9], K, prefix=SHARD.get("prefix") or ())
    errs = sc.harness_errors()
    if errs:
        raise sched.HarnessError("; ".join(errs)[:500])
    ok = True

    def bad(msg):
        rt.note("FAIL:", msg)
        return False

    if sc.hung:
        ok = bad("step cap reached (livelock)")
    if sc.deadlock:
        ok = bad(f"events that can never be delivered remain: {sc.deadlock}")
    if sc.violations:
        ok = bad("; ".join(sc.violations))
    failed_any = False
    for i in range(n):
        job = sc.jobs[i]
        if job is None:
            ok = bad(f"job {i} was never submitted")
            continue
        anc_failed = False
        for j in transitive_deps(deps, i):
            if codes[j] != 0:
                anc_failed = True
        expect = SB.JobState.DONE if (not anc_failed and codes[i] == 0) else SB.JobState.ERROR
        if SHARD.get("invert"):
            # negative control: a deliberately wrong oracle that the engine must refute
            expect = SB.JobState.ERROR if expect == SB.JobState.DONE else SB.JobState.DONE
        if expect == SB.JobState.ERROR:
            failed_any = True
        if job._future is None or not job._future.task.done():
            ok = bad(f"job {i} never reaches a final state (state {job.state})")
            continue
        res = job._future.task.result()
        if res != job.state:
            ok = bad(f"job {i}: wait() gives {res} but state is {job.state}")
        if job.state != expect:
            ok = bad(f"job {i}: final state {job.state}, expected {expect}")
        # stability: nothing after the first finished state but itself
        seen_final = None
        for key, st in sc.w.state_log:
            if key == i:
                if seen_final is not None and st != seen_final:
                    ok = bad(f"job {i}: state {st} assigned after final state {seen_final}")
                if seen_final is None and st.finished():
                    seen_final = st
    for j in sc.re_jobs:
        if j._future is None or not j._future.task.done():
            ok = bad("re-submitted job never reaches a final state")
    # waiting on the experiment
    if sc.wait_outcome is None:
        ok = bad("experiment.wait() still blocked at quiescence")
    elif (sc.wait_outcome == "failed") != failed_any:
        ok = bad(f"experiment.wait() outcome {sc.wait_outcome} but failed_any={failed_any}")
    if sc.xp.unfinishedJobs != 0:
        ok = bad(f"unfinishedJobs = {sc.xp.unfinishedJobs} at quiescence")
    out = sc.finish()
    if out == "hang":
        ok = bad("leaving the experiment hangs")
    rt.note("states", [(k, s.name) for k, s in sc.w.state_log])
    rt.scratch_cleanup()
    return fin(ok)


def conditions(tier):
    conds = []
    K = 4 if tier == "quick" else 5
    tmo = 600 if tier == "quick" else 3000
    shapes = ["one", "chain2", "indep2", "chain3", "fork3", "join3"] if tier == "quick" else ["one", "chain2", "indep2", "chain3", "fork3", "join3", "indep3", "mixed3", "diamond4", "chain4"]
    heavy = ("indep2", "join3", "indep3", "mixed3", "diamond4", "fork3", "chain4")

    def add(c, sh):
        if sh in heavy:
            conds.extend(schedlib.with_prefixes(c, 3 if (sh in ("indep3", "diamond4") and c["shard"].get("token")) else 2))
        else:
            conds.append(c)

    for sh in shapes:
        add({"name": f"plain/{sh}", "func": "scenario", "shard": {"shape": sh, "K": K}, "timeout": tmo}, sh)
    tok = [("indep2", [1, 1]), ("chain2", [1, 1]), ("indep2", [1, 0]), ("join3", [1, 1, 0])]
    if tier == "thorough":
        tok += [("indep3", [1, 1, 1]), ("fork3", [0, 1, 1]), ("chain3", [1, 0, 1]), ("diamond4", [0, 1, 1, 0])]
    for sh, mask in tok:
        # three independent jobs under one token: 4 choice points (one shard of
        # the 5-point version exceeded its 3000 s budget in the end-to-end run)
        k = 4 if sh == "indep3" else K
        add({"name": f"token/{sh}-{''.join(map(str, mask))}", "func": "scenario", "shard": {"shape": sh, "K": k, "token": mask}, "timeout": tmo}, sh)
    conds.append({"name": "plain/chain2/NEG-inverted-oracle", "func": "scenario", "shard": {"shape": "chain2", "K": K, "invert": 1}, "timeout": tmo, "expect": "refute"})
    for sh, idx in (("one", 0), ("chain2", 0), ("chain2", 1), ("indep2", 1)):
        add({"name": f"resubmit/{sh}-{idx}", "func": "scenario", "shard": {"shape": sh, "K": K, "resubmit": idx}, "timeout": tmo}, sh)
    return conds
