PROPERTIES = {
    "C01": "xv.harness.c01_identifier",
    "C02": "xv.harness.c02_neutral",
    "C03": "xv.harness.c03_collision",
    "C04": "xv.harness.c04_ordering",
    "C06": "xv.harness.c06_states",
    "C07": "xv.harness.c07_failures",
    "C08": "xv.harness.c08_capacity",
    "C09": "xv.harness.c09_release",
    "C10": "xv.harness.c10_markers",
    "C12": "xv.harness.c12_roundtrip",
    "C14": "xv.harness.c14_sealed",
    "C18": "xv.harness.c18_launcher",
}
