PROPERTIES = {
    "C18": "xv.harness.c18_launcher",
}
