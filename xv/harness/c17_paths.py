"""C17 — generated paths are private to the job, distinct and reproducible."""

from pathlib import Path

from xv import rt
from xv.rt import fin, pick
from xv.env import hashing
from xv.harness import graphs

SHARD: dict = {}

INFO = {
    "functions": [
        "generators.py:PathGenerator.__call__", "core/objects.py:ConfigWalkContext.push/currentpath", "core/objects.py:ConfigInformation.seal (Sealer.postprocess)",
        "core/objects.py:ConfigWalk.__call__/list/map", "scheduler/base.py:JobContext", "core/objects.py:ConfigInformation.submit (DRY_RUN)",
    ],
    "bounds": {
        "quick": {"graph": "GenTask with generated parameters on the task itself (2), a nested Node (1) and its child Leaf, a direct Leaf, list members, dict values (keys from a menu incl. '0', 'child', 'out'), a Bag holding a list of leaves; presence of each position and sharing of one Leaf object between positions are symbolic selectors", "generated_parameters": "<=10 per graph"},
        "thorough": {"dict_keys": "all pairs of the key menu"},
    },
    "stubs": ["inspect.stack -> constant; cprint -> no-op; real sha256 (the job path embeds the identifier; leaves that are hashed are concrete per path)"],
    "symbolic_data": False,
    "assumptions": ["file names of generated parameters are the plain names declared in the universe (leaf.txt, node.bin, bag.out, own.txt, log.txt)", "leaf values come from a small menu (they are hashed into the job path with the real sha256)"],
    "outside": ["generator functions returning names with '/' or '..'", "user-defined generators", "dict keys containing '/'"],
}

KEYS = ["a", "0", "child", "out", "leafs"]


def setup(mode):
    import experimaestro.core.objects as O

    O.inspect = hashing.FakeInspect()
    O.cprint = lambda *a, **k: None
    hashing.install("replay")


def _build(U, sels, vals, k1, k2, reverse=False):
    """GenTask graph; sels decide which positions exist and what is shared"""
    it = iter(sels)
    leaf = U.Leaf(i=vals[0])
    kw = {"x": vals[1]}
    nodes = []
    if next(it):
        n = U.Node(child=leaf if next(it) else U.Leaf(i=vals[2]))
        kw["node"] = n
        nodes.append(n)
    else:
        next(it)
    if next(it):
        kw["leaf"] = leaf
    if next(it):
        kw["leafs"] = [U.Leaf(i=vals[3]), leaf if next(it) else U.Leaf(i=vals[0])]
    else:
        next(it)
    if next(it):
        kw["d"] = {k1: U.Leaf(i=vals[2]), k2: leaf if next(it) else U.Leaf(i=vals[3])}
    else:
        next(it)
    if next(it):
        kw["bag"] = U.Bag(xs=[U.Leaf(i=vals[1]), leaf])
    if reverse:
        # the same configuration written with its keyword arguments in the opposite order
        kw = dict(reversed(list(kw.items())))
    return U.GenTask(**kw)


def _generated(root):
    """All (object, parameter, value) triples of generated parameters reachable
    from the task, each object once"""
    from experimaestro.core.objects import Config

    seen, out = [], []

    def walk(x):
        if isinstance(x, Config):
            if any(x is s for s in seen):
                return
            seen.append(x)
            for name, a in x.__xpmtype__.arguments.items():
                if a.generator is not None and hasattr(a.generator, "isoutput") and a.generator.isoutput():
                    out.append((x, name, x.__xpm__.values.get(name)))
            # declared (name) order: independent of the order in which the
            # values were assigned, so that two builds are compared position by position
            for name in sorted(x.__xpm__.values):
                walk(x.__xpm__.values[name])
        elif isinstance(x, list):
            for e in x:
                walk(e)
        elif isinstance(x, dict):
            for k in sorted(x):
                walk(x[k])

    walk(root)
    return out


def paths(
    b0: bool, b1: bool, b2: bool, b3: bool, b4: bool, b5: bool, b6: bool, b7: bool,
    v0: int, v1: int, v2: int, v3: int,
) -> bool:
    """Every generated path lies inside the job directory, all are pairwise
    distinct, and an identical second submission yields the same paths.

    post: _
    """
    import xv.defs.ident as U

    pre = SHARD.get("first", [])
    sels = (list(pre) + [b0, b1, b2, b3, b4, b5, b6, b7][len(pre):])[:8]
    vals = [pick(v0, 2), 11, 21, 31]
    k1, k2 = SHARD["keys"]
    t1 = _build(U, sels, vals, k1, k2)
    graphs.dry_submit(t1)
    t2 = _build(U, sels, vals, k1, k2, reverse=True)
    graphs.dry_submit(t2)
    ok = True
    jobpath = t1.__xpm__.job.path
    g1, g2 = _generated(t1), _generated(t2)
    if len(g1) != len(g2):
        ok = False
    vals1 = []
    for (o, name, val) in g1:
        if val is None or not isinstance(val, Path):
            rt.note("FAIL: generated parameter without a path:", type(o).__name__, name)
            ok = False
            continue
        if ".." in val.parts or not val.is_relative_to(jobpath):
            rt.note("FAIL: path outside the job directory:", val)
            ok = False
        vals1.append(val)
    for i in range(len(vals1)):
        for j in range(i + 1, len(vals1)):
            if vals1[i] == vals1[j]:
                rt.note("FAIL: two generated parameters share", vals1[i])
                ok = False
    for (a, b) in zip(g1, g2):
        if a[2] != b[2]:
            rt.note("FAIL: second submission got another path", a[2], b[2])
            ok = False
    if t1.__xpm__.job.path != t2.__xpm__.job.path:
        ok = False
    if rt.concrete():
        rt.note("generated", [str(v) for v in vals1], "job", jobpath)
    return fin(ok)


def conditions(tier):
    conds = []
    pairs = [("a", "0"), ("child", "out"), ("0", "leafs")] if tier == "quick" else [(a, b) for a in KEYS for b in KEYS if a < b]
    for k1, k2 in pairs:
        for f in range(8):
            first = [bool(f & 4), bool(f & 2), bool(f & 1)]
            conds.append({"name": f"paths/{k1}-{k2}/{f}", "func": "paths", "shard": {"keys": [k1, k2], "first": first}, "timeout": 600 if tier == "quick" else 1800})
    return conds
