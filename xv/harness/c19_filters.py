"""C19 — job filters mean what they say; cleaning commands delete only what is selected."""

import contextlib
import io
import json
import os
from pathlib import Path

from xv import rt
from xv.rt import fin, pick

SHARD: dict = {}

INFO = {
    "functions": [
        "cli/filter.py:createFilter + grammar (concrete text)", "cli/filter.py:VarExpr.get / EqExpr / InExpr / NotInExpr / RegexExpr / LogicExpr.filter / LogicExpr.summary",
        "cli/filter.py:JobInformation.state", "cli/jobs.py:process (clean)", "cli/__init__.py:orphans (--clean)",
    ],
    "bounds": {
        "quick": {"filter_templates": "22 expressions: 1-3 atoms (=, var=var, in, not in, ~ with 4 regexes, @state, @name) joined by and/or", "tags": "2 tags, each absent or a string of 0..2 symbolic printable chars", "state": "none/RUNNING/DONE/ERROR (selector)", "workspaces": "3 job directories with symbolic state / index membership; filters from a menu; flags symbolic"},
        "thorough": {"tags": "strings of 0..3 chars"},
    },
    "stubs": ["JobInformation.tags/state set directly (the params.json/marker files are not read) in the filter harness: symbolic values cannot come from files", "the filter text is parsed outside tracing (pyparsing on concrete text)", "the command harnesses run the real callbacks on a scratch workspace with stdout captured"],
    "symbolic_data": True,
    "assumptions": ["tag values are printable ASCII without quotes", "regular expressions come from a small menu (re on symbolic text is modelled by CrossHair)", "and/or associate to the left, as the evaluation order of the help text's example implies"],
    "outside": ["jobs kill", "parenthesised filters and the `|` form (createFilter parses logicExpr only)", "tag names with digits (the grammar only accepts letters)", "--experiment restriction"],
}


def setup(mode):
    pass


# ---------------------------------------------------------------- filter semantics
# (text, ast); ast: ("eq", var, ("const", s)|("var", v)) | ("in", var, [..]) |
# ("notin", var, [..]) | ("re", var, pattern) | ("and", a, b) | ("or", a, b)

TEMPLATES = [
    ('m = "ab"', ("eq", "m", ("const", "ab"))),
    ('m = k', ("eq", "m", ("var", "k"))),
    ('m in ["a", "ab"]', ("in", "m", ["a", "ab"])),
    ('m in ["ab"]', ("in", "m", ["ab"])),
    ('m not in ["a", "ab"]', ("notin", "m", ["a", "ab"])),
    ('m not in ["b"]', ("notin", "m", ["b"])),
    ('m ~ "a+"', ("re", "m", "a+")),
    ('m ~ "[ab]b"', ("re", "m", "[ab]b")),
    ('m ~ "b"', ("re", "m", "b")),
    ('k ~ ".b"', ("re", "k", ".b")),
    ('@state = "DONE"', ("eq", "@state", ("const", "DONE"))),
    ('@state in ["DONE", "ERROR"]', ("in", "@state", ["DONE", "ERROR"])),
    ('@state not in ["RUNNING"]', ("notin", "@state", ["RUNNING"])),
    ('@name = "x.y"', ("eq", "@name", ("const", "x.y"))),
    ('m = "a" and k = "b"', ("and", ("eq", "m", ("const", "a")), ("eq", "k", ("const", "b")))),
    ('m = "a" or k = "b"', ("or", ("eq", "m", ("const", "a")), ("eq", "k", ("const", "b")))),
    ('m = "a" and k = "b" or @state = "DONE"', ("or", ("and", ("eq", "m", ("const", "a")), ("eq", "k", ("const", "b"))), ("eq", "@state", ("const", "DONE")))),
    ('m = "a" or k = "b" and @state = "DONE"', ("and", ("or", ("eq", "m", ("const", "a")), ("eq", "k", ("const", "b"))), ("eq", "@state", ("const", "DONE")))),
    ('m in ["a", "b"] and @state = "RUNNING"', ("and", ("in", "m", ["a", "b"]), ("eq", "@state", ("const", "RUNNING")))),
    ('m not in ["a"] and k in ["b", "ab"]', ("and", ("notin", "m", ["a"]), ("in", "k", ["b", "ab"]))),
    ('m ~ "a" or k not in ["b"]', ("or", ("re", "m", "a"), ("notin", "k", ["b"]))),
    ('m = "bm" and mode in ["a", "b"] and @state = "RUNNING"', ("and", ("and", ("eq", "m", ("const", "bm")), ("in", "mode", ["a", "b"])), ("eq", "@state", ("const", "RUNNING")))),
]

#: reference matchers for the regex menu: re.match semantics (anchored at the start)
def _re_ref(pattern, s):
    if pattern == "a+":
        return len(s) >= 1 and s[0] == "a"
    if pattern == "[ab]b":
        return len(s) >= 2 and s[0] in ("a", "b") and s[1] == "b"
    if pattern == "b":
        return len(s) >= 1 and s[0] == "b"
    if pattern == ".b":
        return len(s) >= 2 and s[0] != "\n" and s[1] == "b"
    if pattern == "a":
        return len(s) >= 1 and s[0] == "a"
    raise KeyError(pattern)


def _get(var, env):
    return env.get(var)


def _ref(ast, env):
    k = ast[0]
    if k == "eq":
        rhs = ast[2][1] if ast[2][0] == "const" else _get(ast[2][1], env)
        return _get(ast[1], env) == rhs
    if k == "in":
        v = _get(ast[1], env)
        return any(v == x for x in ast[2])
    if k == "notin":
        v = _get(ast[1], env)
        return not any(v == x for x in ast[2])
    if k == "re":
        v = _get(ast[1], env)
        if not v:
            return False
        return _re_ref(ast[2], v)
    if k == "and":
        return _ref(ast[1], env) and _ref(ast[2], env)
    if k == "or":
        return _ref(ast[1], env) or _ref(ast[2], env)
    raise KeyError(k)


def semantics(
    mp: int, m0: int, m1: int, m2: int, kp: int, k0: int, k1: int, k2: int, st: int, nm: bool,
) -> bool:
    """The compiled filter evaluates like its documented meaning for every
    assignment of tags, state and name.

    post: _
    """
    from experimaestro.cli.filter import createFilter, JobInformation
    from experimaestro.scheduler import JobState

    text, ast = TEMPLATES[SHARD["template"]]
    maxlen = SHARD.get("maxlen", 2)

    def tagvalue(present, cs):
        # absent, or a string of 0..maxlen printable chars (no quotes)
        n = pick(present, maxlen + 2)
        if n == maxlen + 1:
            return None
        s = ""
        for c in cs[:n]:
            if not (32 <= c < 127) or c == 34 or c == 39:
                raise _Skip()
            s = s + chr(c)
        return s

    try:
        m = tagvalue(mp, [m0, m1, m2])
        k = tagvalue(kp, [k0, k1, k2])
    except _Skip:
        return True
    tags = {}
    if m is not None:
        tags["m"] = m
        tags["mode"] = m
    if k is not None:
        tags["k"] = k
    state = [None, JobState.RUNNING, JobState.DONE, JobState.ERROR][pick(st, 4)]
    name = "x.y" if nm else "other.task"
    if rt.concrete():
        flt = createFilter(text)
    else:
        from crosshair.tracers import NoTracing

        with NoTracing():
            flt = createFilter(text)
    info = JobInformation(Path(f"/w/jobs/{name}/abc"), "y")
    info.__dict__["tags"] = tags
    info.__dict__["state"] = state
    env = dict(tags)
    env["@state"] = state.name if state else None
    env["@name"] = name
    got = bool(flt(info))
    want = bool(_ref(ast, env))
    if rt.concrete():
        rt.note("filter", text, "tags", tags, "state", env["@state"], "->", got, "expected", want)
    return fin(got == want)


class _Skip(Exception):
    pass


# ---------------------------------------------------------------- jobs clean

FILTERS = ["", 'm = "a"', 'm in ["a"]', 'm not in ["a"]', '@state = "DONE"', 'm ~ "a"', '@state = "ERROR" or m = "b"']
FILTER_REF = [
    lambda t, s: True,
    lambda t, s: t == "a",
    lambda t, s: t == "a",
    lambda t, s: t != "a",
    lambda t, s: s == "DONE",
    lambda t, s: t == "a",
    lambda t, s: s == "ERROR" or t == "b",
]


def _make_ws(root: Path, states, tagvals, indexed):
    """Scratch workspace: jobs/x.task/<h>/ with params.json and markers; the
    experiment index xp/e/jobs links the jobs flagged `indexed`"""
    ws = root / "ws"
    (ws / "jobs" / "x.task").mkdir(parents=True)
    (ws / "xp" / "e" / "jobs" / "x.task").mkdir(parents=True)
    (ws / ".__experimaestro__").touch()
    dirs = []
    for i, (st, tv, ix) in enumerate(zip(states, tagvals, indexed)):
        d = ws / "jobs" / "x.task" / f"h{i}"
        d.mkdir()
        (d / "params.json").write_text(json.dumps({"tags": {"m": tv}, "objects": [], "workspace": str(ws), "version": 2}))
        if st == 1:
            (d / "task.pid").write_text('{"type": "local", "pid": 999999}')
        elif st == 2:
            (d / "task.done").touch()
        elif st == 3:
            (d / "task.failed").write_text("1")
        if ix:
            (ws / "xp" / "e" / "jobs" / "x.task" / f"h{i}").symlink_to(d)
        dirs.append(d)
    return ws, dirs


class _WS:
    def __init__(self, path):
        self.path = path


def clean_cmd(s0: int, s1: int, s2: int, t0: bool, t1: bool, t2: bool, perform: bool, tags: bool) -> bool:
    """`jobs clean` removes exactly the finished jobs selected by the filter,
    only with --perform, and never a running job.

    post: _
    """
    from experimaestro.cli.jobs import process

    fi = SHARD["filter"]
    states = [pick(s0, 4), pick(s1, 4), pick(s2, 4)]  # none / running / done / failed
    tagvals = ["a" if t else "b" for t in (t0, t1, t2)]
    root = rt.scratch_dir()
    with rt._notrace():
        ws, dirs = _make_ws(root, states, tagvals, [True, True, True])
    buf = io.StringIO()
    err = None
    try:
        with contextlib.redirect_stdout(buf), contextlib.redirect_stderr(buf):
            process(_WS(ws), clean=True, perform=perform, filter=FILTERS[fi], tags=tags)
    except Exception as e:
        err = e
    ok = True
    names = [None, "RUNNING", "DONE", "ERROR"]
    for d, st, tv in zip(dirs, states, tagvals):
        finished = st in (2, 3)
        selected = FILTER_REF[fi](tv, names[st])
        should_remove = perform and finished and selected
        removed = not d.exists()
        if removed != should_remove:
            rt.note(f"FAIL: {d.name} state={names[st]} tag={tv} removed={removed} expected={should_remove}")
            ok = False
        if st == 1 and removed:
            rt.note("FAIL: a running job was removed")
            ok = False
    if err is not None:
        rt.note("FAIL: the command raised", type(err).__name__, err)
        ok = False
    rt.scratch_cleanup()
    return fin(ok)


def orphans_cmd(r0: int, r1: int, r2: int, clean: bool, ignore_old: bool) -> bool:
    """`orphans --clean` removes exactly the job directories referenced by no
    experiment index or backup index (and nothing without --clean).

    post: _
    """
    from experimaestro.cli import orphans

    refs = [pick(r0, 4), pick(r1, 4), pick(r2, 4)]  # none / jobs / jobs.bak / both
    root = rt.scratch_dir()
    with rt._notrace():
        ws, dirs = _make_ws(root, [2, 3, 2], ["a", "a", "b"], [False, False, False])
        for name in ("jobs", "jobs.bak"):
            (ws / "xp" / "e" / name / "x.task").mkdir(parents=True, exist_ok=True)
        # a second experiment with its own index
        (ws / "xp" / "f" / "jobs" / "x.task").mkdir(parents=True)
    for i, (d, r) in enumerate(zip(dirs, refs)):
        if r in (1, 3):
            (ws / "xp" / ("e" if i != 1 else "f") / "jobs" / "x.task" / d.name).symlink_to(d)
        if r in (2, 3):
            (ws / "xp" / "e" / "jobs.bak" / "x.task" / d.name).symlink_to(d)
    buf = io.StringIO()
    err = None
    try:
        with contextlib.redirect_stdout(buf), contextlib.redirect_stderr(buf):
            orphans.callback(path=ws, clean=clean, size=False, show_all=False, ignore_old=ignore_old)
    except Exception as e:
        err = e
    ok = err is None
    for d, r in zip(dirs, refs):
        referenced = r != 0 if not ignore_old else r in (1, 3)
        should_remove = clean and not referenced
        if (not d.exists()) != should_remove:
            rt.note(f"FAIL: {d.name} refs={r} removed={not d.exists()} expected={should_remove}")
            ok = False
    rt.scratch_cleanup()
    return fin(ok)


def conditions(tier):
    conds = []
    for ti in range(len(TEMPLATES)):
        conds.append({"name": f"semantics/t{ti}", "func": "semantics", "shard": {"template": ti, "maxlen": 2 if tier == "quick" else 3}, "timeout": 300 if tier == "quick" else 1200})
    for fi in range(len(FILTERS)):
        conds.append({"name": f"clean/f{fi}", "func": "clean_cmd", "shard": {"filter": fi}, "timeout": 600})
    conds.append({"name": "orphans", "func": "orphans_cmd", "shard": {}, "timeout": 600})
    return conds
