"""C07 — failures are contained: dependents are cancelled, others still run."""

from xv import rt
from xv.rt import fin
from xv.harness import schedlib

SHARD: dict = {}

INFO = {
    "functions": [
        "scheduler/base.py:Job.dependencychanged", "scheduler/base.py:JobDependency.status", "scheduler/base.py:Scheduler.aio_submit",
        "scheduler/base.py:Scheduler.aio_start", "scheduler/base.py:experiment.wait", "scheduler/dependencies.py:Dependency.check",
    ],
    "bounds": {
        "quick": {"jobs": "<=3 (chain3, fork3, join3, mixed3, indep2)", "schedule_choice_points": 6},
        "thorough": {"jobs": "<=4 (adds diamond4, chain4, join4, two2)", "schedule_choice_points": 5},
    },
    "stubs": schedlib.STUBS,
    "symbolic_data": True,
    "assumptions": ["exit codes are unbounded symbolic ints: every subset of failing jobs is a solver matter", "submissions are schedule events: a failure may arrive before, while or after its dependents are submitted", "no success marker exists before the run"],
    "outside": schedlib.OUTSIDE,
}


def setup(mode):
    schedlib.setup(mode)


def containment(
    total: int, r0: int, r1: int, r2: int, r3: int,
    c0: int, c1: int, c2: int, c3: int,
    rev: bool,
    s0: int, s1: int, s2: int, s3: int, s4: int, s5: int, s6: int, s7: int, s8: int, s9: int,
) -> bool:
    """Jobs with a failed ancestor are never launched and end in error by
    dependency; all other jobs are launched exactly once and end according
    to their own exit code; leaving the experiment reports failure iff some
    job failed.

    post: _
    """
    import experimaestro.scheduler.base as SB

    sc = schedlib.drive(SHARD, total, [r0, r1, r2, r3], [c0, c1, c2, c3], rev, [s0, s1, s2, s3, s4, s5, s6, s7, s8, s9])
    if sc is None:
        return True
    ok = True
    exp = schedlib.expected_states(sc)
    failed_any = False
    for i in range(sc.n):
        job = sc.jobs[i]
        kind, state = exp[i]
        nl = len(sc.launches(i))
        if sc.codes[i] != 0 or kind == "cancelled":
            failed_any = True
        if job is None or job._future is None or not job._future.task.done():
            rt.note(f"FAIL: job {i} not final")
            ok = False
            continue
        if kind == "cancelled":
            if nl != 0:
                rt.note(f"FAIL: job {i} launched although an ancestor failed")
                ok = False
            if job.state != SB.JobState.ERROR or job.failure_status != SB.JobFailureStatus.DEPENDENCY:
                rt.note(f"FAIL: job {i} state {job.state}/{job.failure_status}, expected ERROR by dependency")
                ok = False
        else:
            if nl != 1:
                rt.note(f"FAIL: job {i} launched {nl} times")
                ok = False
            if job.state != state:
                rt.note(f"FAIL: job {i} ends {job.state}, expected {state}")
                ok = False
    out = sc.finish()
    if (out == "failed") != failed_any:
        rt.note(f"FAIL: leaving the experiment: {out}, failed_any={failed_any}")
        ok = False
    rt.scratch_cleanup()
    return fin(ok)


def conditions(tier):
    conds = []
    K = 4 if tier == "quick" else 5
    tmo = 600 if tier == "quick" else 3000
    shapes = ["indep2", "chain3", "fork3", "join3", "mixed3"] if tier == "quick" else ["indep2", "chain3", "fork3", "join3", "mixed3", "diamond4", "chain4", "join4", "two2"]
    for sh in shapes:
        conds.append({"name": f"containment/{sh}", "func": "containment", "shard": {"shape": sh, "K": K}, "timeout": tmo})
    conds.append({"name": "containment-token/join3", "func": "containment", "shard": {"shape": "join3", "K": K, "token": [1, 1, 0]}, "timeout": tmo})
    heavy = ("indep2", "join3", "indep3", "mixed3", "diamond4", "fork3", "chain4", "join4", "two2")
    out = []
    for c in conds:
        if c["shard"].get("shape") in heavy:
            out.extend(schedlib.with_prefixes(c, 2))
        else:
            out.append(c)
    return out
