"""C09 — tokens are always given back and waiting jobs eventually run."""

from xv import rt
from xv.rt import fin
from xv.harness import schedlib

SHARD: dict = {}

INFO = {
    "functions": [
        "tokens.py:ProcessCounterToken.acquire/release", "tokens.py:CounterToken.acquire/release/_update", "tokens.py:TokenFile.create/delete/watch",
        "tokens.py:Token.aio_notify", "locking.py:Locks._release", "scheduler/base.py:Scheduler.aio_start (abort on LockError)",
        "scheduler/base.py:Scheduler.aio_submit (retry loop)", "scheduler/base.py:Job.dependencychanged",
    ],
    "bounds": {
        "quick": {"jobs": "<=3", "tokens": "1 (in-process: symbolic counts; file: enumerated counts, total<=2)", "schedule_choice_points": 6},
        "thorough": {"jobs": "<=4", "tokens": "1 (file: total<=3)", "schedule_choice_points": 10},
    },
    "stubs": schedlib.STUBS + ["ipc.ipcom().fswatch -> recorded; threading.Thread in tokens -> external event"],
    "symbolic_data": True,
    "assumptions": ["1 <= request <= total", "exit codes symbolic (success, failure)", "aborted starts are reachable through a job lock / token contention between two jobs of the same scheduler"],
    "outside": schedlib.OUTSIDE + ["death of a scheduler process while its jobs hold tokens, and reclaiming by a second instance through TokenFile.watch / watchdog events: not modelled in this round (clause not claimed)", "partially written token file observed by a watcher (needs two processes)"],
}


def setup(mode):
    schedlib.setup(mode)


def release(
    total: int, r0: int, r1: int, r2: int, r3: int,
    c0: int, c1: int, c2: int, c3: int,
    rev: bool,
    s0: int, s1: int, s2: int, s3: int, s4: int, s5: int, s6: int, s7: int, s8: int, s9: int,
    total2: int, q0: int, q1: int, q2: int, q3: int,
) -> bool:
    """At quiescence the token shows its full capacity, no token file is left,
    and no job whose request fits is left waiting.

    post: _
    """
    import experimaestro.scheduler.base as SB

    if SHARD.get("token_kind") == "file":
        total = SHARD["total"]
        r0, r1, r2, r3 = (SHARD["reqs"] + [1, 1, 1, 1])[:4]
    sc = schedlib.drive(SHARD, total, [r0, r1, r2, r3], [c0, c1, c2, c3], rev, [s0, s1, s2, s3, s4, s5, s6, s7, s8, s9], total2=total2, rs2=[q0, q1, q2, q3])
    if sc is None:
        return True
    ok = True
    if sc.hung or sc.deadlock:
        rt.note("FAIL: hang/deadlock", sc.deadlock)
        ok = False
    if sc.token.available != total:
        rt.note(f"FAIL: idle token shows {sc.token.available} of {total}")
        ok = False
    if sc.token2 is not None and sc.token2.available != total2:
        rt.note(f"FAIL: idle second token shows {sc.token2.available} of {total2}")
        ok = False
    if SHARD.get("token_kind") == "file":
        left = [p.name for p in sc.token.path.glob("*.token")]
        if left:
            rt.note("FAIL: token files left", left)
            ok = False
    for i in range(sc.n):
        job = sc.jobs[i]
        if job is None or job._future is None or not job._future.task.done():
            rt.note(f"FAIL: job {i} left in state {job.state if job else None} although its request fits")
            ok = False
    out = sc.finish()
    if out == "hang":
        ok = False
    rt.scratch_cleanup()
    return fin(ok)


def conditions(tier):
    from xv.harness.c08_capacity import conditions as c08

    conds = []
    for c in c08(tier):
        c = dict(c)
        c["func"] = "release"
        c["name"] = c["name"].replace("process/", "release-process/").replace("file/", "release-file/").replace("two-tokens/", "release-two-tokens/")
        conds.append(c)
    return conds
