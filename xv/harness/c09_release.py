"""C09 — tokens are always given back and waiting jobs eventually run."""

from xv import rt
from xv.rt import fin
from xv.harness import schedlib

SHARD: dict = {}

INFO = {
    "functions": [
        "tokens.py:ProcessCounterToken.acquire/release", "tokens.py:CounterToken.acquire/release/_update", "tokens.py:TokenFile.create/delete/watch",
        "tokens.py:Token.aio_notify", "locking.py:Locks._release", "scheduler/base.py:Scheduler.aio_start (abort on LockError)",
        "scheduler/base.py:Scheduler.aio_submit (retry loop)", "scheduler/base.py:Job.dependencychanged",
    ],
    "bounds": {
        "quick": {"fault_clause": "two schedulers on one token directory (total 1, requests 1+1); the first is killed after 12 or 14 delivered events (one shard each; thorough: 10..16; which events: symbolic choices; earlier death points are excluded: CrossHair reports NotDeterministic there), its job process lives on and ends by itself; the survivor must reclaim and run", "jobs": "<=3", "tokens": "1 (in-process: symbolic counts; file: enumerated counts, total<=2)", "schedule_choice_points": 6},
        "thorough": {"jobs": "<=4", "tokens": "1 (file: total<=3)", "schedule_choice_points": 10},
    },
    "stubs": schedlib.STUBS + ["ipc.ipcom().fswatch -> recorded; threading.Thread in tokens -> external event"],
    "symbolic_data": True,
    "assumptions": ["1 <= request <= total", "exit codes symbolic (success, failure)", "aborted starts are reachable through a job lock / token contention between two jobs of the same scheduler"],
    "outside": schedlib.OUTSIDE + ["partially written token file observed by a watcher (statement-level preemption inside TokenFile.create)", "more than two scheduler processes"],
}


def setup(mode):
    schedlib.setup(mode)


def release(
    total: int, r0: int, r1: int, r2: int, r3: int,
    c0: int, c1: int, c2: int, c3: int,
    rev: bool,
    s0: int, s1: int, s2: int, s3: int, s4: int, s5: int, s6: int, s7: int, s8: int, s9: int,
    total2: int, q0: int, q1: int, q2: int, q3: int,
) -> bool:
    """At quiescence the token shows its full capacity, no token file is left,
    and no job whose request fits is left waiting.

    post: _
    """
    import experimaestro.scheduler.base as SB

    if SHARD.get("token_kind") == "file":
        total = SHARD["total"]
        r0, r1, r2, r3 = (SHARD["reqs"] + [1, 1, 1, 1])[:4]
    sc = schedlib.drive(SHARD, total, [r0, r1, r2, r3], [c0, c1, c2, c3], rev, [s0, s1, s2, s3, s4, s5, s6, s7, s8, s9], total2=total2, rs2=[q0, q1, q2, q3])
    if sc is None:
        return True
    ok = True
    if sc.hung or sc.deadlock:
        rt.note("FAIL: hang/deadlock", sc.deadlock)
        ok = False
    if sc.token.available != total:
        rt.note(f"FAIL: idle token shows {sc.token.available} of {total}")
        ok = False
    if sc.token2 is not None and sc.token2.available != total2:
        rt.note(f"FAIL: idle second token shows {sc.token2.available} of {total2}")
        ok = False
    if SHARD.get("token_kind") == "file":
        left = [p.name for p in sc.token.path.glob("*.token")]
        if left:
            rt.note("FAIL: token files left", left)
            ok = False
    for i in range(sc.n):
        job = sc.jobs[i]
        if job is None or job._future is None or not job._future.task.done():
            rt.note(f"FAIL: job {i} left in state {job.state if job else None} although its request fits")
            ok = False
    out = sc.finish()
    if out == "hang":
        ok = False
    rt.scratch_cleanup()
    return fin(ok)


def multi_kill(
    c0: int, c1: int, rev: bool,
    s0: int, s1: int, s2: int, s3: int, s4: int, s5: int, s6: int, s7: int,
) -> bool:
    """Two scheduler processes share the token directory; the first one is
    killed after an enumerated number of events while its job may hold the
    token; its job ends by itself. The survivor reclaims the token (watcher
    thread on the foreign token file) and runs its own job; at quiescence the
    token is idle at full capacity and no token file is left.

    post: _
    """
    total = SHARD["total"]
    A, B = schedlib.duo(SHARD, c0, c1, rev, [s0, s1, s2, s3, s4, s5, s6, s7], kill_at=SHARD.get("kill_at"))
    ok = True
    if SHARD.get("kill_at") is None:
        # no death: both processes must see an idle token at full capacity
        if A.token.available != total:
            rt.note(f"FAIL: idle token shows {A.token.available} of {total} in process 1")
            ok = False
        ja = A.jobs[0]
        if ja is None or ja._future is None or not ja._future.task.done():
            rt.note("FAIL: the job of process 1 is not final")
            ok = False
    driver = B if SHARD.get("kill_at") is not None else A  # the scenario whose run() drove the world
    if driver.hung or driver.deadlock:
        rt.note("FAIL: the surviving scheduler does not come to an end", driver.deadlock)
        ok = False
    job = B.jobs[0]
    if job is None or job._future is None or not job._future.task.done():
        rt.note(f"FAIL: the survivor's job is left in state {job.state if job else None} although its request fits")
        ok = False
    left = [p.name for p in B.token.path.glob("*.token")]
    if left:
        rt.note("FAIL: token files left", left)
        ok = False
    if B.token.available != total:
        rt.note(f"FAIL: idle token shows {B.token.available} of {total} in the surviving process")
        ok = False
    if A.violations or B.violations:
        rt.note("FAIL:", A.violations + B.violations)
        ok = False
    B.finish()
    rt.scratch_cleanup()
    return fin(ok)


def conditions(tier):
    from xv.harness.c08_capacity import conditions as c08

    conds = []
    for total, reqs in (((1, [1, 1]),) if tier == "quick" else ((1, [1, 1]), (2, [2, 1]), (3, [2, 2]))):
        # death points below 10 events make CrossHair report NotDeterministic
        # (replays of one path diverge after the refinements of the watcher
        # model; not understood in this round): they are not part of the claim
        for k in ((12, 14) if tier == "quick" else (10, 11, 12, 13, 14, 15, 16)):
            conds.append({"name": f"multi-kill/t{total}r{''.join(map(str, reqs))}/kill{k}", "func": "multi_kill", "shard": {"total": total, "reqs": reqs, "K": 2 if tier == "quick" else 3, "K1": 2 if tier == "quick" else 3, "kill_at": k}, "timeout": 900 if tier == "quick" else 3000})
    for total, reqs in (((1, [1, 1]),) if tier == "quick" else ((1, [1, 1]), (2, [2, 1]), (3, [2, 2]), (2, [1, 1]))):
        c = {"name": f"multi/t{total}r{''.join(map(str, reqs))}", "func": "multi_kill", "shard": {"total": total, "reqs": reqs, "K": 4 if tier == "quick" else 5}, "timeout": 900 if tier == "quick" else 3000}
        conds.extend(schedlib.with_prefixes(c, 2))
    for c in c08(tier):
        if c["shard"].get("multi"):
            continue
        c = dict(c)
        c["func"] = "release"
        c["name"] = c["name"].replace("process/", "release-process/").replace("file/", "release-file/").replace("two-tokens/", "release-two-tokens/")
        conds.append(c)
    return conds
