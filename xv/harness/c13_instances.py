"""C13 — runtime objects mirror the configuration graph and are initialised once."""

from pathlib import Path

from xv import rt
from xv.rt import fin, pick
from xv.env import hashing
from xv.harness import graphs
from xv.harness.c12_roundtrip import Iso

SHARD: dict = {}

INFO = {
    "functions": [
        "core/objects.py:ConfigInformation.FromPython (stub/preprocess/postprocess)", "core/objects.py:ConfigInformation.fromConfig", "core/objects.py:ObjectStore",
        "core/objects.py:ConfigWalk.__call__", "core/objects.py:ConfigInformation.fromParameters (pre/init task collection)", "core/objects.py:ConfigInformation.load_objects(as_instance=True)",
        "core/objects.py:TypeConfig.instance",
    ],
    "bounds": {
        "quick": {"skeletons": "all 15 + gentask + sharedpre (same pre-task attached at two nodes)", "init_tasks": "0..2", "nodes": "<=6"},
        "thorough": {"string_lengths": "0..2"},
    },
    "stubs": ["hashlib.sha256 -> Rec", "inspect.stack -> constant"],
    "symbolic_data": True,
    "assumptions": ["ints within int64, strings printable ASCII"],
    "outside": ["fromParameters(..., return_tasks=True) (references an undefined name in the pinned code; not part of the property)", "user __init__ side effects"],
}


def setup(mode):
    import experimaestro.core.objects as O

    hashing.install(mode)
    O.cprint = lambda *a, **k: None


def sk_sharedpre(U, v, L):
    """The same pre-task object attached at the root, on a nested node and on
    a list member; a second pre-task holding a configuration"""
    pre = U.Pre(z=v.int())
    leaf = U.Leaf(i=v.int())
    other = U.Leaf(i=v.int())
    # (a pre-task referencing the very node it is attached to makes
    # updatedependencies recurse forever at submit - noted in DESIGN.md as an
    # observation outside this property; the pre-task holds another node)
    pre2 = U.Pre2(z=v.int(), leaf=other)
    other.add_pretasks(pre)
    leaf.add_pretasks(pre, pre2)
    t = U.GenTask(x=v.int(), leaf=leaf, leafs=[other, leaf])
    t.add_pretasks(pre)
    return graphs.G(t, [t, leaf, other, pre, pre2], pre=[pre, pre2])


graphs.SKELETONS["sharedpre"] = (sk_sharedpre, 0)


def sk_cycpre(U, v, L):
    """A pre-task that references the very node it is attached to (a cycle
    through the pre-task), entered through the pre-task: instance() is called
    on the pre-task itself. (Such a graph cannot be submitted - see DESIGN §8.3 -
    but it can be instantiated directly.)"""
    leaf = U.Leaf(i=v.int())
    pre2 = U.Pre2(z=v.int(), leaf=leaf)
    leaf.add_pretasks(pre2)
    return graphs.G(pre2, [pre2, leaf], pre=[pre2])


def sk_cycpre_owner(U, v, L):
    """Same cycle entered through a holder of the owner"""
    leaf = U.Leaf(i=v.int())
    pre2 = U.Pre2(z=v.int(), leaf=leaf)
    leaf.add_pretasks(pre2)
    node = U.Node(child=leaf, x=v.int())
    return graphs.G(node, [node, leaf, pre2], pre=[pre2])


DIRECT_ONLY = {"cycpre": (sk_cycpre, 0), "cycpre_owner": (sk_cycpre_owner, 0)}


def _reachable(root):
    """Reference: configurations reachable through parameter values"""
    from experimaestro.core.objects import Config

    out = []

    def walk(x):
        if isinstance(x, Config):
            if any(x is y for y in out):
                return
            out.append(x)
            for v in x.__xpm__.values.values():
                walk(v)
        elif isinstance(x, list):
            for e in x:
                walk(e)
        elif isinstance(x, dict):
            for e in x.values():
                walk(e)

    walk(root)
    return out


def _pretasks_of(nodes):
    pre = []
    for n in nodes:
        for p in n.__xpm__.pre_tasks:
            if not any(p is q for q in pre):
                pre.append(p)
    return pre


def direct(
    i0: int, i1: int, i2: int, i3: int, i4: int, i5: int, i6: int, i7: int,
    c0: int, c1: int, c2: int, c3: int,
    s0: int, s1: int, s2: int, s3: int, s4: int, s5: int, s6: int, s7: int,
) -> bool:
    """config.instance(): one object per distinct configuration, wired like
    the graph, __post_init__ once after the parameters are set, every
    pre-task executed exactly once.

    post: _
    """
    import xv.defs.ident as U
    from xv.defs import calls
    from experimaestro.core.objects import ObjectStore
    from experimaestro.xpmutils import DirectoryContext

    import xv.harness.c14_sealed  # noqa: F401  (registers the gentask skeleton)

    try:
        v = graphs.V([i0, i1, i2, i3, i4, i5, i6, i7], [c0, c1, c2, c3], [s0, s1, s2, s3, s4, s5, s6, s7])
        if SHARD["sk"] in DIRECT_ONLY:
            g = DIRECT_ONLY[SHARD["sk"]][0](U, v, [])
        else:
            g = graphs.build(SHARD["sk"], U, v, SHARD.get("lens"))
    except graphs.Skip:
        return True
    # a first instantiation must not influence the second one
    g.root.instance(DirectoryContext(Path("/xvctx")))
    calls.reset()
    store = ObjectStore()
    inst = g.root.instance(DirectoryContext(Path("/xvctx")), objects=store)
    ok = True
    iso = Iso(instances=True)
    if not iso.config(g.root, inst, "root"):
        rt.note("FAIL: instance graph differs:", iso.why)
        ok = False
    reach = _reachable(g.root)
    for n in g.extra.get("pre", []):
        # pre-tasks (and what they hold) are reached through pre-task links only
        for r2 in _reachable(n):
            if not any(r2 is r for r in reach):
                reach.append(r2)
    # one instance per reachable configuration, each post-initialised once
    for c in reach:
        o = store.retrieve(id(c))
        if o is None:
            rt.note("FAIL: no instance for", type(c).__name__)
            ok = False
            continue
        n_post = [e for e in calls.LOG if e[0] == "post_init" and e[1] == id(o)]
        if len(n_post) != 1:
            rt.note(f"FAIL: __post_init__ called {len(n_post)} times on", type(c).__name__)
            ok = False
        elif not n_post[0][3].get("all_set"):
            rt.note("FAIL: __post_init__ before the parameters were set on", type(c).__name__)
            ok = False
    # every pre-task of a reachable node executed exactly once
    for p in _pretasks_of(reach):
        o = store.retrieve(id(p))
        n_exec = [e for e in calls.LOG if e[0] == "execute" and o is not None and e[1] == id(o)]
        if len(n_exec) != 1:
            rt.note(f"FAIL: pre-task executed {len(n_exec)} times")
            ok = False
    # nothing else was executed
    if len([e for e in calls.LOG if e[0] == "execute"]) != len(_pretasks_of(reach)):
        rt.note("FAIL: unexpected execute() calls")
        ok = False
    return fin(ok)


def via_params(
    i0: int, i1: int, i2: int, i3: int, i4: int, i5: int, i6: int, i7: int,
    c0: int, c1: int, c2: int, c3: int,
    s0: int, s1: int, s2: int, s3: int, s4: int, s5: int, s6: int, s7: int,
    ninit: int,
) -> bool:
    """Loading a task from its parameter file: one object per configuration,
    __post_init__ once each, every pre-task executed exactly once, then every
    init task exactly once in order, all before the task body.

    post: _
    """
    import xv.defs.ident as U
    from xv.defs import calls
    from experimaestro.core.context import SerializationContext
    from experimaestro.core.objects import ConfigInformation

    import xv.harness.c14_sealed  # noqa: F401

    try:
        v = graphs.V([i0, i1, i2, i3, i4, i5, i6, i7], [c0, c1, c2, c3], [s0, s1, s2, s3, s4, s5, s6, s7])
        g = graphs.build(SHARD["sk"], U, v, SHARD.get("lens"))
    except graphs.Skip:
        return True
    k = pick(ninit, 3)
    inits = [U.Pre(z=100 + j) for j in range(k)]
    if not g.root.__xpm__._sealed:
        graphs.dry_submit(g.root, init_tasks=inits)
    objects = g.root.__xpm__.__get_objects__([], SerializationContext())
    # a first load of the same parameter file in this process must not
    # influence the second one (state kept between loads)
    ConfigInformation.fromParameters(objects, as_instance=True)
    calls.reset()
    task = ConfigInformation.fromParameters(objects, as_instance=True)
    log_before_body = list(calls.LOG)
    task.execute()
    ok = True
    iso = Iso(instances=True)
    if not iso.config(g.root, task, "root"):
        rt.note("FAIL: instance graph differs:", iso.why)
        ok = False
    posts = [e for e in log_before_body if e[0] == "post_init"]
    ids = [e[1] for e in posts]
    if len(set(ids)) != len(ids):
        rt.note("FAIL: __post_init__ called twice on one object")
        ok = False
    if len(posts) != len(objects):
        rt.note(f"FAIL: {len(posts)} __post_init__ calls for {len(objects)} objects")
        ok = False
    if not all(e[3].get("all_set") for e in posts):
        rt.note("FAIL: __post_init__ before parameters were set")
        ok = False
    execs = [e for e in log_before_body if e[0] == "execute"]
    # expected: every distinct pre-task once (any order), then init tasks in order
    pre_ids = []
    for d in objects:
        for pid in d.get("pre-tasks", []):
            if pid not in pre_ids:
                pre_ids.append(pid)
    n_pre = len(pre_ids)
    if len(execs) != n_pre + k:
        rt.note(f"FAIL: {len(execs)} executions before the body, expected {n_pre} pre-tasks + {k} init tasks")
        ok = False
    else:
        if len(set(e[1] for e in execs[:n_pre])) != n_pre:
            rt.note("FAIL: a pre-task was executed twice")
            ok = False
        for j in range(k):
            e = execs[n_pre + j]
            if e[2] != "Pre.XPMValue" and "Pre" not in e[2]:
                ok = False
        # init tasks in order: their z values 100, 101
        zs = []
    if len(calls.LOG) != len(log_before_body) + 1:
        rt.note("FAIL: the body did not run exactly once after the pre/init tasks")
        ok = False
    return fin(ok)


def conditions(tier):
    import xv.harness.c14_sealed  # noqa: F401

    conds = []
    tmo = 300 if tier == "quick" else 1200
    for sk, (_, nstr) in sorted(graphs.SKELETONS.items()):
        lens_list = [[1] * nstr] if tier == "quick" else [[0] * nstr, [1] * nstr, [2] * nstr]
        if nstr == 0:
            lens_list = [[]]
        for lens in lens_list:
            shard = {"sk": sk, "lens": lens, "small_ints": 1}
            if sk in ("shared", "gentask", "sharedpre"):
                shard["fixed_sels"] = [1] * 8
            conds.append({"name": f"direct/{sk}" + ("-" + "".join(map(str, lens)) if lens else ""), "func": "direct", "shard": shard, "timeout": tmo})
    for sk in DIRECT_ONLY:
        conds.append({"name": f"direct/{sk}", "func": "direct", "shard": {"sk": sk, "lens": [], "small_ints": 1}, "timeout": tmo})
    for sk in ("taskself", "taskout", "tasklist", "pretask", "gentask", "sharedpre"):
        shard = {"sk": sk, "lens": [], "small_ints": 1, "fixed_sels": [1] * 8}
        conds.append({"name": f"params/{sk}", "func": "via_params", "shard": shard, "timeout": tmo})
    return conds
