#!/bin/bash
# tools_seed.sh <seed-id> <property> [xv check args...]
# Confirms a seeded change (demo fails with it, passes without), runs the
# property's check against it in /repo and restores /repo.
set -u
ID=$1; PROP=$2; shift 2
WT=/tmp/seed/$ID
OUT=/verif/seeded/$ID
mkdir -p $OUT
cp $WT/OUT/patch.diff $OUT/patch.diff
for f in $WT/OUT/*; do case "$f" in *patch.diff) ;; *) cp -r "$f" $OUT/ ;; esac; done
DEMO=$(ls $OUT | grep -i "demo" | head -1)
echo "== demo: $DEMO"
cd $WT
git -C $WT apply -R $OUT/patch.diff
PYTHONPATH=$WT/src timeout 600 /venv/bin/python OUT/$DEMO > /tmp/seed_$ID.without.log 2>&1; W0=$?
git -C $WT apply $OUT/patch.diff
PYTHONPATH=$WT/src timeout 600 /venv/bin/python OUT/$DEMO > /tmp/seed_$ID.with.log 2>&1; W1=$?
echo "demo exit without change: $W0 ; with change: $W1"
cd /verif
# the check analyses the scratch worktree (which carries the change): /repo is not touched
XV_REPO=$WT bin/xv check $PROP "$@" > /tmp/seed_$ID.check.log 2>&1; RC=$?
echo "check exit: $RC"
grep -c "VIOLATION" /tmp/seed_$ID.check.log
grep "VIOLATION\|INCONCLUSIVE property\|^OK" /tmp/seed_$ID.check.log | head -5
