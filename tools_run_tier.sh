#!/bin/bash
# tools_run_tier.sh <tier> <ID>... : runs the checks one after the other (each uses all cores)
# and appends one summary line per check to run_<tier>.log in the current directory
TIER=$1; shift
for p in "$@"; do
  S=$(date +%s)
  bin/xv check $p --tier $TIER > run_${TIER}_$p.log 2>&1
  RC=$?
  E=$(date +%s)
  echo "$p exit=$RC wall=$((E-S))s $(tail -1 run_${TIER}_$p.log | cut -c1-150)" >> run_${TIER}.log
done
echo ALLDONE >> run_${TIER}.log
