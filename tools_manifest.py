#!/usr/bin/env python3
"""Regenerates MANIFEST.json from the table below (kept as code so that the
manifest stays valid and in sync with the harness registry)."""
import json
import sys
from pathlib import Path

VERIF = Path(__file__).resolve().parent
sys.path.insert(0, str(VERIF))
from xv.harness import PROPERTIES  # noqa: E402
from xv.manifest_table import CHECKS, NOT_APPLICABLE  # noqa: E402

props = [json.loads(l)["id"] for l in (VERIF / "properties.jsonl").read_text().splitlines() if l.strip()]
checks = []
for pid in props:
    if pid in CHECKS and pid in PROPERTIES:
        c = CHECKS[pid]
        checks.append({
            "property_id": pid,
            "quick_cmd": f"bin/xv check {pid} --tier quick",
            "thorough_cmd": f"bin/xv check {pid} --tier thorough",
            "evidence_file": f"/verif/evidence/{pid}.json",
            "replay_cmd_template": "bin/xv replay {path}",
            "engine": "xv",
            "level_claimed": {"category": "model_checking", "text": c["text"], "design_ref": c["design_ref"]},
            "level_note": c["note"],
            "technique": c.get("technique", "symbolic execution of the real Python code with CrossHair + z3 (bounded, per-shard), counter-examples replayed concretely"),
        })
na = [{"property_id": pid, "reason": NOT_APPLICABLE.get(pid, "no check built yet in this round; not claimed")} for pid in props if not (pid in CHECKS and pid in PROPERTIES)]
manifest = {
    "version": 1,
    "setup_cmd": "bin/xv --help >/dev/null",
    "hooks": {
        "guard": "EXPERIMAESTRO_VERIF",
        "enable": "no source hook is needed: the environment stubs are installed from the harness side by rebinding module attributes (DESIGN.md §2.3); EXPERIMAESTRO_VERIF=1 is exported by the engine for completeness",
        "baseline_off_cmd": "cd /repo && /venv/bin/python -m pytest -ra -q -p no:cacheprovider --timeout=900 --continue-on-collection-errors",
        "source_commits": [],
        "add_only": True,
    },
    "engines": [{
        "name": "xv",
        "path": "/verif/xv",
        "serves_properties": [c["property_id"] for c in checks],
        "kind_free_text": "driver around CrossHair 0.0.110 (symbolic execution of Python, z3 back end) used through its API; harness functions call the unmodified functions of /repo/src/experimaestro with symbolic arguments; per-shard bounds; reachability twins; concrete replay of every counter-example",
    }],
    "checks": checks,
    "not_applicable": na,
    "notes": "Exit codes: 0 held on everything explored; 1 + VIOLATION line = violation reproduced on the real code; 3 = inconclusive (time-out, solver unknown, CrossHair CANNOT_CONFIRM, non-reproducing model) - never reported as success. Known findings: /verif/known_findings.json.",
}
(VERIF / "MANIFEST.json").write_text(json.dumps(manifest, indent=1) + "\n")
print("checks:", [c["property_id"] for c in checks], "n/a:", [n["property_id"] for n in na])
